"""Statements: assignment, control flow, loops cut by invariants, try/except, await/yield."""
import ast
import z3
from . import ty as T
from .ty import V, INT, BOOL, REAL, NONE, NONEV, BYTES, EXC, PYOBJ, STR, Opt, Ref, Tup, List, Set, Dict, Enum, Opaque
from .state import St, Out, Unsupported, BindingError
from . import contract as C
from . import arith
from .exec_base import PyThing, Fut, FUTURE_FIELDS
from .exec_call import CallMixin, _safe
from .exec_expr import _parse

LOG_NAMES = ("log", "logger", "logging", "warnings")


class StmtMixin(CallMixin):

    # ------------------------------------------------------------------ blocks
    def exec_block(self, stmts, st):
        outs = []
        live = [st]
        for s in stmts:
            nxt = []
            for cur in live:
                for o in self.exec_stmt(s, cur):
                    if o.kind == "fall":
                        nxt.append(o.st)
                    else:
                        outs.append(o)
            live = nxt
            if len(live) + len(outs) > self.c.path_cap:
                raise Unsupported("path explosion (> %d paths) at line %s" % (self.c.path_cap, getattr(s, "lineno", "?")))
            if not live:
                break
        outs.extend(Out("fall", s) for s in live)
        return outs

    def exec_stmt(self, s, st):
        self.cur_line = getattr(s, "lineno", self.cur_line)
        m = getattr(self, "st_" + type(s).__name__, None)
        if m is None:
            raise Unsupported("statement %s (line %s)" % (type(s).__name__, self.cur_line))
        self.raises_stack.append([])
        try:
            outs = m(s, st)
        finally:
            raised = self.raises_stack.pop()
        return list(outs) + raised

    # ------------------------------------------------------------------ simple
    def st_Pass(self, s, st):
        return [Out("fall", st)]

    def st_Expr(self, s, st):
        e = s.value
        if isinstance(e, ast.Constant):
            return [Out("fall", st)]          # docstring
        if isinstance(e, ast.Call) and self.is_log_call(e):
            return [Out("fall", st)]
        if isinstance(e, (ast.Yield, ast.YieldFrom)):
            return self.do_yield(e, st)
        return [Out("fall", s2) for s2, _ in self.ev(e, st)]

    def is_log_call(self, e):
        f = e.func
        if isinstance(f, ast.Attribute) and isinstance(f.value, ast.Name) and f.value.id in LOG_NAMES:
            for a in ast.walk(e):
                if isinstance(a, (ast.Call,)) and a is not e and not self.is_pure_log_arg(a):
                    raise Unsupported("call inside a logging statement (line %s)" % e.lineno)
            return True
        return False

    def is_pure_log_arg(self, call):
        t = ast.unparse(call.func)
        if t in ("len", "repr", "str", "type", "list", "sorted") or t.endswith(".__name__"):
            return True
        # a call the contract models as effect-free (no modifies, no raise, no suspension): dropped with the statement
        cm = self.find_call_model(t)
        if cm is not None and not cm.modifies and not cm.raises and not cm.havoc_all and not cm.ghost:
            self.trusted_used.add("call-model %s (inside a dropped logging statement): %s" % (cm.pattern, cm.note or "effect-free"))
            return True
        return False

    def st_Return(self, s, st):
        if s.value is None:
            return [Out("return", st, NONEV)]
        return [Out("return", s2, self.unwrap_awaited(v)) for s2, v in self.ev(s.value, st)]

    def unwrap_awaited(self, v):
        return v

    def abstracted_target(self, tgt):
        """a local whose *value* the contract declares irrelevant (c.abstract_local): assignments to it are not
        evaluated, it holds an arbitrary value of its declared type"""
        ab = getattr(self.c, "abstract_locals_", None)
        return ab.get(tgt.id) if (ab and isinstance(tgt, ast.Name)) else None

    def wrapping_target(self, tgt):
        w = getattr(self.c, "wrapping_", None)
        return bool(w) and ast.unparse(tgt) in w

    def st_Assign(self, s, st):
        if len(s.targets) == 1 and self.wrapping_target(s.targets[0]) and not getattr(self, "wrap_ok", 0):
            self.wrap_ok = 1
            try:
                return self.st_Assign(s, st)
            finally:
                self.wrap_ok = 0
        if len(s.targets) == 1 and self.abstracted_target(s.targets[0]) is not None:
            nv = self.fresh(self.abstracted_target(s.targets[0]), s.targets[0].id)
            self.assume_valid(st, nv)
            st.env[s.targets[0].id] = nv
            return [Out("fall", st)]
        outs = []
        for s2, v in self.ev(s.value, st):
            for tgt in s.targets:
                self.assign(s2, tgt, v)
            outs.append(Out("fall", s2))
        return outs

    def st_AnnAssign(self, s, st):
        if s.value is None:
            return [Out("fall", st)]
        outs = []
        for s2, v in self.ev(s.value, st):
            self.assign(s2, s.target, v)
            outs.append(Out("fall", s2))
        return outs

    def st_AugAssign(self, s, st):
        if self.wrapping_target(s.target) and not getattr(self, "wrap_ok", 0):
            self.wrap_ok = 1
            try:
                return self.st_AugAssign(s, st)
            finally:
                self.wrap_ok = 0
        if self.abstracted_target(s.target) is not None:
            nv = self.fresh(self.abstracted_target(s.target), s.target.id)
            self.assume_valid(st, nv)
            st.env[s.target.id] = nv
            return [Out("fall", st)]
        outs = []
        load = _as_load(s.target)
        for s2, cur in self.ev(load, st):
            for s3, v in self.ev(s.value, s2):
                if cur.ty == PYOBJ or v.ty == PYOBJ:
                    raise Unsupported("augmented assignment on %s / %s (line %s)" % (cur.ty, v.ty, self.cur_line))
                r = self.binop_v(s3, s.op, cur, v)
                self.assign(s3, s.target, r)
                outs.append(Out("fall", s3))
        return outs

    def assign(self, st, tgt, v):
        if isinstance(tgt, ast.Name):
            n = tgt.id
            if n in st.ghost:
                st.ghost[n] = v
                return
            if v.ty == PYOBJ and v.t.kind == "awaited":
                v = v.t.value
            if v.ty == PYOBJ and v.t.kind in ("emptylist", "emptyset", "emptydict"):
                hint = self.local_type_hint(n)
                if hint is None:
                    raise Unsupported("type of empty container assigned to %s unknown; declare c.local(%r, Ty) (line %s)" % (n, n, self.cur_line))
                v = self.empty_container(hint)
            if isinstance(v.ty, (List, Set, Dict)) and v.lv is None:
                v = V(v.ty, v.t, lv=("local", n))
            elif isinstance(v.ty, (List, Set, Dict)) and v.lv is not None and v.lv[0] == "local" and v.lv[1] != n:
                raise Unsupported("aliasing of local container %s as %s (line %s)" % (v.lv[1], n, self.cur_line))
            old = st.env.get(n)
            hint = self.local_type_hint(n)
            if hint is not None:
                cv = T.coerce(v, hint)
                if cv is None:
                    raise Unsupported("local %s declared %s, assigned %s (line %s)" % (n, hint, v.ty, self.cur_line))
                cv.lv = v.lv
                v = cv
            elif n == "_":
                pass                      # conventional discard name: freely re-typed
            elif isinstance(old, V) and old.ty != v.ty and old.ty != PYOBJ and v.ty != PYOBJ:
                cv = T.coerce(v, old.ty)
                if cv is None:
                    co = T.coerce(old, v.ty)
                    if co is None and v.ty == NONE:
                        v = T.opt_none(Opt(old.ty)) if not isinstance(old.ty, Opt) else T.opt_none(old.ty)
                    elif co is None and old.ty == NONE:
                        v = T.coerce(v, Opt(v.ty)) if not isinstance(v.ty, Opt) else v
                    elif co is None:
                        pass            # Python locals are untyped: `resp = io.BytesIO(resp)` simply rebinds
                else:
                    cv.lv = v.lv
                    v = cv
            st.env[n] = v
            return
        if isinstance(tgt, ast.Attribute):
            for s2, o in self.ev(tgt.value, st):
                if s2 is not st:
                    raise Unsupported("forking assignment target")
                oty = o.ty
                if isinstance(oty, Opt):
                    self.oblige(st, "none", "setattr-%s" % tgt.attr, z3.Not(T.opt_is_none(o)))
                    o = T.opt_val(o)
                    oty = o.ty
                if oty == EXC and tgt.attr in ("__cause__", "__context__", "__traceback__", "__suppress_context__"):
                    continue            # exception chaining metadata: no modelled effect
                if not isinstance(oty, Ref):
                    raise Unsupported("attribute assignment on %s (line %s)" % (oty, self.cur_line))
                fty = self.field_ty(oty.cls, tgt.attr)
                if v.ty == PYOBJ and v.t.kind in ("emptylist", "emptyset", "emptydict"):
                    v = self.empty_container(fty.inner if isinstance(fty, Opt) else fty)
                if v.ty == PYOBJ and v.t.kind == "awaited":
                    v = v.t.value
                self.hwrite(st, o.t, oty.cls, tgt.attr, v)
            return
        if isinstance(tgt, ast.Subscript):
            (s2, o) = self.ev1(tgt.value, st)
            (s3, k) = self.ev1(tgt.slice, s2)
            if o.lv is None:
                raise Unsupported("subscript assignment to non-lvalue (line %s)" % self.cur_line)
            oty = o.ty
            if isinstance(oty, Dict):
                ck = T.coerce(k, oty.k)
                if v.ty == PYOBJ and v.t.kind in ("emptylist", "emptyset", "emptydict"):
                    v = self.empty_container(oty.v)
                cv = T.coerce(v, oty.v)
                if ck is None or cv is None:
                    raise Unsupported("dict store types %s[%s]=%s (line %s)" % (oty, k.ty, v.ty, self.cur_line))
                self.write_lv(st, o.lv, T.dict_mk(oty, z3.Store(T.dict_dom(o), ck.t, True), z3.Store(T.dict_val(o), ck.t, cv.t)))
                return
            if isinstance(oty, List):
                cv = T.coerce(v, oty.elem)
                n = T.list_len(o)
                self.oblige(st, "bounds", "store-index", z3.And(k.t >= T.intval(0).t, k.t < n))
                self.write_lv(st, o.lv, T.list_mk(oty, z3.Store(T.list_arr(o), k.t, cv.t), n))
                return
            raise Unsupported("subscript assignment on %s" % oty)
        if isinstance(tgt, (ast.Tuple, ast.List)):
            if isinstance(v.ty, Opt) and isinstance(v.ty.inner, Tup):
                self.oblige(st, "none", "unpack", z3.Not(T.opt_is_none(v)))       # unpacking None is a TypeError
                v = T.opt_val(v)
            if v.ty == PYOBJ and v.t.kind == "pytuple":
                items = v.t.items
            elif isinstance(v.ty, Tup):
                items = [T.tup_get(v, i) for i in range(len(v.ty.items))]
                fa = getattr(v.ty, "flex_arity", None)
                if fa is not None and tgt.elts and isinstance(tgt.elts[-1], ast.Starred):
                    # `a, b, *rest = entry` on a tuple of context-dependent length n (modelled at maximal width): the
                    # fixed targets take the first k components, `rest` is the list of the next n - k (quantifier-free)
                    k = len(tgt.elts) - 1
                    n = self.spec_eval(fa, st, old=self.entry)
                    self.fork_raise(st, n.t < T.intval(k).t, "ValueError")
                    rest = items[k:]
                    ety = rest[0].ty
                    if any(r.ty != ety for r in rest):
                        raise Unsupported("star-unpack of a flexible tuple with a heterogeneous tail (line %s)" % self.cur_line)
                    arr = z3.K(INT.sort(), rest[0].t)
                    for i, r in enumerate(rest):
                        arr = z3.Store(arr, T.intval(i).t, r.t)
                    for t2, it in zip(tgt.elts[:-1], items[:k]):
                        self.assume_valid(st, it)
                        self.assign(st, t2, it)
                    self.assign(st, tgt.elts[-1].value, T.list_mk(List(ety), arr, n.t - T.intval(k).t))
                    return
                if fa is not None:
                    # a tuple whose real length depends on context (wire-protocol version): modelled at its
                    # maximal width; unpacking into k names raises ValueError unless the real length is k
                    k = len(tgt.elts)
                    n = self.spec_eval(fa, st, old=self.entry)
                    self.fork_raise(st, n.t != T.intval(k).t, "ValueError")
                    items = items[:k]
                for it in items:
                    self.assume_valid(st, it)
            else:
                raise Unsupported("unpacking %s (line %s)" % (v.ty, self.cur_line))
            if tgt.elts and isinstance(tgt.elts[-1], ast.Starred) and isinstance(v.ty, Tup) and getattr(v.ty, "star_rest", False):
                # `a, b, *rest = entry`: the model type keeps the variable-length tail as its last component (a list)
                if len(items) != len(tgt.elts):
                    raise Unsupported("star-unpack shape")
                for t2, it in zip(tgt.elts[:-1], items[:-1]):
                    self.assign(st, t2, it)
                self.assign(st, tgt.elts[-1].value, V(items[-1].ty, items[-1].t))
                return
            if len(items) != len(tgt.elts):
                raise Unsupported("unpack arity")
            for t2, it in zip(tgt.elts, items):
                self.assign(st, t2, it)
            return
        raise Unsupported("assignment target %s" % type(tgt).__name__)

    def local_type_hint(self, n):
        return getattr(self.c, "locals_", {}).get(n)

    def st_Delete(self, s, st):
        for tgt in s.targets:
            if isinstance(tgt, ast.Subscript):
                (s2, o) = self.ev1(tgt.value, st)
                o = self.deref_dictlike(s2, o)
                (s3, k) = self.ev1(tgt.slice, s2)
                if isinstance(o.ty, Dict) and o.lv is not None:
                    ck = T.coerce(k, o.ty.k)
                    self.fork_raise(st, z3.Not(z3.Select(T.dict_dom(o), ck.t)), "KeyError")
                    self.write_lv(st, o.lv, T.dict_mk(o.ty, z3.Store(T.dict_dom(o), ck.t, False), T.dict_val(o)))
                    continue
            if isinstance(tgt, ast.Name) and tgt.id in st.env and tgt.id not in st.ghost:
                del st.env[tgt.id]          # `del local`: the name is unbound again (a later read raises UnboundLocalError)
                continue
            if isinstance(tgt, ast.Attribute):
                # `del self._builder`: the attribute disappears; model: no further reads are verified
                self.note("del %s ignored (attribute removal not modelled)" % ast.unparse(tgt))
                continue
            raise Unsupported("del %s (line %s)" % (ast.unparse(tgt), self.cur_line))
        return [Out("fall", st)]

    def st_Assert(self, s, st):
        outs = []
        for s2, t in self.ev_truth(s.test, st):
            bad = s2.copy().assume(z3.Not(t))
            if self.feasible(bad):
                outs.append(Out("raise", bad, V(EXC, z3.IntVal(self.exc_id("AssertionError")))))
            s2.assume(t)
            if self.feasible(s2):
                outs.append(Out("fall", s2))
        return outs

    def st_Raise(self, s, st):
        if s.exc is None:
            cur = st.flags.get("handling")
            if cur is None:
                raise Unsupported("bare raise outside handler")
            return [Out("raise", st, cur)]
        outs = []
        exc_expr = s.exc
        if isinstance(exc_expr, ast.Call) and getattr(self.module, "pyx_dropped", None) is not None:
            # translated Cython: the message of a raised exception (str.format calls etc.) is dropped, the class kept
            exc_expr = ast.copy_location(ast.Call(func=exc_expr.func, args=[], keywords=[]), exc_expr)
        for s2, v in self.ev(exc_expr, st):
            if v.ty != EXC:
                if isinstance(v.ty, Opt) and v.ty.inner == EXC:
                    v = T.opt_val(v)
                else:
                    raise Unsupported("raise of %s (line %s)" % (v.ty, self.cur_line))
            outs.append(Out("raise", s2, v))
        return outs

    def st_If(self, s, st):
        outs = []
        for s2, t in self.ev_truth(s.test, st):
            t = z3.simplify(t)
            if not z3.is_false(t):
                sa = s2.copy().assume(t)
                if z3.is_true(t) or self.feasible(sa):
                    outs.extend(self.exec_block(s.body, sa))
            if not z3.is_true(t):
                sb = s2.copy().assume(z3.Not(t))
                if z3.is_false(t) or self.feasible(sb):
                    outs.extend(self.exec_block(s.orelse, sb) if s.orelse else [Out("fall", sb)])
        return outs

    def st_FunctionDef(self, s, st):
        st.env[s.name] = V(PYOBJ, PyThing("closure", node=s))
        return [Out("fall", st)]

    st_AsyncFunctionDef = st_FunctionDef

    def st_Import(self, s, st):
        return [Out("fall", st)]

    st_ImportFrom = st_Import

    def st_Global(self, s, st):
        raise Unsupported("global statement")

    # --------------------------------------------------------------- try/with
    def st_Try(self, s, st):
        body_outs = self.exec_block(s.body, st)
        outs = []
        for o in body_outs:
            if o.kind == "raise" and s.handlers:
                outs.extend(self.handle(s, o))
            elif o.kind == "fall" and s.orelse:
                outs.extend(self.exec_block(s.orelse, o.st))
            else:
                outs.append(o)
        if s.finalbody:
            fin = []
            for o in outs:
                for fo in self.exec_block(s.finalbody, o.st):
                    if fo.kind == "fall":
                        fin.append(Out(o.kind, fo.st, o.val))
                    else:
                        fin.append(fo)
            outs = fin
        return outs

    def handle(self, s, o):
        outs = []
        rest = o.st
        exc = o.val
        for h in s.handlers:
            if h.type is None:
                names = ["BaseException"]
            else:
                names = [ast.unparse(x).split(".")[-1] for x in (h.type.elts if isinstance(h.type, ast.Tuple) else [h.type])]
            names = ["CancelledError" if n == "CancelledError" else n for n in names]
            m = z3.Or([self.exc_is(exc.t, n) for n in names])
            sa = rest.copy().assume(m)
            if self.feasible(sa):
                if h.name:
                    sa.env[h.name] = exc
                prev = sa.flags.get("handling")
                sa.flags["handling"] = exc
                for ho in self.exec_block(h.body, sa):
                    ho.st.flags["handling"] = prev
                    outs.append(ho)
            rest = rest.copy().assume(z3.Not(m))
            if not self.feasible(rest):
                rest = None
                break
        if rest is not None:
            outs.append(Out("raise", rest, exc))
        return outs

    def st_With(self, s, st):
        if len(s.items) == 1:
            ce = s.items[0].context_expr
            t = ast.unparse(ce.func) if isinstance(ce, ast.Call) else ""
            if t in ("contextlib.suppress", "suppress"):
                names = [ast.unparse(a).split(".")[-1] for a in ce.args]
                outs = []
                for o in self.exec_block(s.body, st):
                    if o.kind == "raise":
                        m = z3.Or([self.exc_is(o.val.t, n) for n in names])
                        sa = o.st.copy().assume(m)
                        if self.feasible(sa):
                            outs.append(Out("fall", sa))
                        sb = o.st.copy().assume(z3.Not(m))
                        if self.feasible(sb):
                            outs.append(Out("raise", sb, o.val))
                    else:
                        outs.append(o)
                return outs
            if isinstance(s, ast.AsyncWith) and s.items[0].optional_vars is None and ast.unparse(ce) in self.c.locks_:
                # `async with <asyncio.Lock>`: acquiring may suspend (a yield point); Lock.__aexit__ releases without
                # suspending. The mutual exclusion the lock provides is not used (weaker assumption, still sound).
                self.trusted_used.add("asyncio.Lock %s: acquire = yield point, release does not suspend" % ast.unparse(ce))
                self.yield_point(st, s)
                return self.exec_block(s.body, st)
        raise Unsupported("with statement (line %s)" % self.cur_line)

    st_AsyncWith = st_With

    # -------------------------------------------------------------------- loops
    def loop_ordinal(self, node):
        """Ordinal of a loop within the function under contract, in source order (static: the
        same loop reached on several paths is the same loop). Inlined callees number separately."""
        tbl = getattr(self, "_loop_tbl", None)
        if tbl is None or id(node) not in tbl:
            root = getattr(self, "_loop_root", None) or self.fnode
            loops = [n for n in ast.walk(root) if isinstance(n, (ast.For, ast.While, ast.AsyncFor))]
            loops.sort(key=lambda n: (n.lineno, n.col_offset))
            tbl = self._loop_tbl = {id(n): i for i, n in enumerate(loops)}
        if id(node) not in tbl:
            raise BindingError("loop at line %s is outside the function under contract" % node.lineno)
        return tbl[id(node)]

    def loop_spec(self, node):
        k = self.loop_ordinal(node)
        spec = self.c.loops.get(k)
        hdr = self.module.segment(node).split("\n")[0].strip().rstrip(":")
        same = [sp for sp in self.c.loops.values() if sp.header is not None and " ".join(sp.header.split()) == " ".join(hdr.split())]
        if (spec is None or spec.header is None or " ".join(spec.header.split()) != " ".join(hdr.split())) and len(same) == 1 \
                and not str(same[0].header).endswith(" in *"):
            # the loop specification is found by its header text when loops were added or removed around it: a loop the
            # code no longer has simply leaves its specification unused, the remaining ones still bind
            spec = same[0]
        if spec is None:
            # a loop the contract says nothing about is cut with no invariant: its body is checked from an arbitrary state
            # (within the frame) and nothing but the negated condition is known afterwards. Sound; what needed an invariant
            # is then left undischarged and goes to the witness search
            return self.default_loop_spec(k, node, "has no specification in the contract")
        if spec.header is not None:
            want, have = " ".join(spec.header.split()), " ".join(hdr.split())
            # a header ending in " in *" binds the loop by its targets only: the invariants then have to hold
            # whatever the iterated expression is (its value is still evaluated from the real code)
            if want.endswith(" in *"):
                ok = have.startswith(want[:-1])
            else:
                ok = want == have
            if not ok:
                return self.default_loop_spec(k, node, "is not the loop %r its specification was written for" % spec.header)
        return spec

    def default_loop_spec(self, k, node, why):
        from .contract import LoopSpec
        self.note("loop #%d at line %s of %s %s: cut with no invariant" % (k, node.lineno, self.c.qual, why))
        cache = self.__dict__.setdefault("_default_loops", {})
        if k not in cache:
            cache[k] = LoopSpec(k, [], None, None, None, None)
        return cache[k]

    def st_While(self, s, st):
        spec = self.loop_spec(s)
        ord_after = None
        if s.orelse:
            raise Unsupported("while-else")
        if spec.unroll is not None:
            return self.unroll_while(s, st, spec)
        return self.cut_loop(s, st, spec, kind="while")

    def unroll_while(self, s, st, spec):
        outs = []
        live = [st]
        ord0 = self.loop_ord
        for it in range(spec.unroll + 1):
            nxt = []
            for cur in live:
                for s2, t in self.ev_truth(s.test, cur):
                    sx = s2.copy().assume(z3.Not(t))
                    if self.feasible(sx):
                        outs.append(Out("fall", sx))
                    sb = s2.copy().assume(t)
                    if not self.feasible(sb):
                        continue
                    if it == spec.unroll:
                        self.oblige(sb, "unwind", "loop%d<=%d" % (spec.ordinal, spec.unroll), z3.BoolVal(False), s.lineno, assume=False)
                        continue
                    self.loop_ord = ord0
                    for o in self.exec_block(s.body, sb):
                        if o.kind in ("fall", "continue"):
                            nxt.append(o.st)
                        elif o.kind == "break":
                            outs.append(Out("fall", o.st))
                        else:
                            outs.append(o)
            live = nxt
            if not live:
                break
        self.loop_ord = max(self.loop_ord, ord0)
        return outs

    def st_For(self, s, st):
        spec = self.loop_spec(s)
        if s.orelse and spec.unroll is not None and not spec.invariants:
            raise Unsupported("for-else on an unrolled loop (line %s)" % s.lineno)
        if spec.unroll is not None and not spec.invariants:
            return self.unroll_for(s, st, spec)
        return self.cut_loop(s, st, spec, kind="for")

    def unroll_for(self, s, st, spec):
        """Bounded unrolling of a for loop over a list / range: iteration k runs with the concrete index lo+k; an
        unwinding assertion fails if more than `unroll` iterations are possible (so a pass is complete)."""
        outs = []
        ord0 = self.loop_ord
        for s0, dv in self.for_domain(s, st):
            if dv["kind"] not in ("list", "range"):
                raise Unsupported("unrolling a for loop over a %s (line %s)" % (dv["kind"], s.lineno))
            base = dv["lo"].t if dv["kind"] == "range" else T.intval(0).t
            live = [s0]
            for it in range(spec.unroll + 1):
                nxt = []
                for cur in live:
                    dv_k = dict(dv)
                    dv_k["i"] = V(INT, base + T.intval(it).t)
                    hi = dv["hi"].t if dv["kind"] == "range" else T.list_len(dv["list"])
                    done = dv_k["i"].t >= hi
                    se = cur.copy().assume(done)
                    if self.feasible(se):
                        outs.append(Out("fall", se))
                    sb = cur.copy().assume(z3.Not(done))
                    if not self.feasible(sb):
                        continue
                    if it == spec.unroll:
                        self.oblige(sb, "unwind", "loop%d<=%d" % (spec.ordinal, spec.unroll), z3.BoolVal(False), s.lineno, assume=False)
                        continue
                    self.dom_bind(s, dv_k, sb)
                    self.loop_ord = ord0
                    for o in self.exec_block(s.body, sb):
                        if o.kind in ("fall", "continue"):
                            nxt.append(o.st)
                        elif o.kind == "break":
                            outs.append(Out("fall", o.st))
                        else:
                            outs.append(o)
                live = nxt
                if not live:
                    break
        return outs

    st_AsyncFor = None

    def assigned_names(self, body, extra=()):
        names = set(extra)
        for n in body:
            for x in ast.walk(n):
                if isinstance(x, ast.Name) and isinstance(x.ctx, (ast.Store, ast.Del)):
                    names.add(x.id)
                elif isinstance(x, (ast.FunctionDef, ast.AsyncFunctionDef)):
                    names.add(x.name)
        return names

    def mutated_local_containers(self, body, st):
        names = set()
        for n in body:
            for x in ast.walk(n):
                if isinstance(x, ast.Call) and isinstance(x.func, ast.Attribute):
                    base = x.func.value
                    while isinstance(base, ast.Subscript):
                        base = base.value
                    if isinstance(base, ast.Name) and base.id in st.env:
                        v = st.env[base.id]
                        if isinstance(v, V) and isinstance(v.ty, (List, Set, Dict)) and (v.lv is None or v.lv[0] == "local"):
                            names.add(base.id)
                elif isinstance(x, (ast.Subscript,)) and isinstance(x.ctx, (ast.Store, ast.Del)):
                    base = x.value
                    while isinstance(base, ast.Subscript):
                        base = base.value
                    if isinstance(base, ast.Name) and base.id in st.env:
                        names.add(base.id)
        return names

    def havoc_loop(self, st, s, spec):
        """Havoc everything the loop body may change: assigned locals, locally mutated
        containers, ghost variables, and every heap location in the function's frame."""
        body = list(s.body)
        names = self.assigned_names(body)
        if isinstance(s, ast.For):
            names |= self.assigned_names([ast.Expr(value=_as_store_holder(s.target))]) if False else set()
            for x in ast.walk(s.target):
                if isinstance(x, ast.Name):
                    names.add(x.id)
        names |= self.mutated_local_containers(body, st)
        new_names = self._loop_new_names = set()
        for n in sorted(names):
            if n not in st.env and self.local_type_hint(n) is not None:
                # first bound inside the loop and typed by the contract: after at least one iteration it holds some
                # value of that type (the zero-iteration exit, where it is unbound, is a separate path in cut_loop)
                nv = self.fresh(self.local_type_hint(n), n)
                self.assume_valid(st, nv)
                st.env[n] = nv
                new_names.add(n)
        for n in names:
            if n in new_names:
                continue
            if n in st.env and isinstance(st.env[n], V) and st.env[n].ty != PYOBJ and st.env[n].ty != NONE:
                old = st.env[n]
                if old.lv is not None and old.lv[0] != "local":
                    continue            # alias into the heap: re-read on use
                nv = self.fresh(old.ty, n)
                nv.lv = old.lv
                self.assume_valid(st, nv)
                st.env[n] = nv
            elif n in st.env and isinstance(st.env[n], V) and st.env[n].ty == NONE:
                hint = self.local_type_hint(n)
                if hint is None:
                    raise Unsupported("local %s is None before loop and assigned inside; declare its type with c.local (line %s)" % (n, s.lineno))
                st.env[n] = self.fresh(hint, n)
        for g in list(st.ghost):
            if g in getattr(self.c, "loop_stable_ghosts", ()):
                continue
            if self.body_touches_ghost(body, g):
                st.ghost[g] = self.fresh(st.ghost[g].ty, g)
        # a modelled iterator is stepped at the loop head: what its step model modifies is written by the loop as well
        step = self.find_call_model("iter:" + ast.unparse(s.iter)) if isinstance(s, ast.For) else None
        if self.body_has_effects(body) or step is not None:
            ws = self.body_write_set(body)
            if step is not None and ws is not None:
                if step.havoc_all:
                    ws = None
                else:
                    for loc in step.modifies:
                        f = loc.rpartition(".")[2]
                        ws = ws | (self.fields_named(f) if f != "*" else {(loc.rpartition(".")[0], "*")})
            self.havoc_frame(st, only=ws)
            if self.body_has_await(body) or (step is not None and step.havoc_all):
                self.yield_havoc(st)

    def body_touches_ghost(self, body, g):
        for h in self.c.hooks:
            for act in h[2]:
                if act[0] == "set" and act[1] == g and (h[0] == "yield" or self.body_may_call(body, h[1])):
                    return True
        for cm in self.c.calls:
            if cm.ghost and g in cm.ghost and self.body_may_call(body, cm.pattern):
                return True
        for n in body:
            for x in ast.walk(n):
                if isinstance(x, ast.Name) and x.id == g:
                    return True
        return False

    def body_may_call(self, body, pattern):
        """Could a call matched by `pattern` (a call model or hook pattern) occur in this loop body? Over-approximation:
        the call's text matches, or its bare name matches the pattern's last component (models are also found by
        '<Class>.<method>' of the receiver); anything inlined or an iterator step counts as possible."""
        from .exec_call import _match
        pat = pattern.split("#")[0].split("/")[0]
        if pat.startswith("iter:") or getattr(self.c, "inline", None):
            return True
        last = pat.split(".")[-1]
        for n in body:
            for x in ast.walk(n):
                if not isinstance(x, ast.Call):
                    continue
                if _match(pat, ast.unparse(x.func)):
                    return True
                nm = x.func.attr if isinstance(x.func, ast.Attribute) else (x.func.id if isinstance(x.func, ast.Name) else None)
                if nm is not None and (_match(last, nm) or _match(pat, nm)):
                    return True
        return False

    def body_has_effects(self, body):
        for n in body:
            for x in ast.walk(n):
                if isinstance(x, (ast.Call, ast.Await)):
                    return True
                if isinstance(x, ast.Attribute) and isinstance(x.ctx, (ast.Store, ast.Del)):
                    return True
                if isinstance(x, ast.Subscript) and isinstance(x.ctx, (ast.Store, ast.Del)):
                    return True
        return False

    def body_has_await(self, body):
        return any(isinstance(x, (ast.Await, ast.Yield)) for n in body for x in ast.walk(n))

    FUT_MUT = ("set_result", "set_exception", "cancel")
    CONT_MUT = ("append", "appendleft", "popleft", "pop", "clear", "add", "remove", "discard", "update", "extend",
                "setdefault", "insert", "sort")
    NO_WRITE = ("done", "result", "exception", "cancelled", "get", "keys", "values", "items", "copy", "add_done_callback",
                "remove_done_callback", "startswith", "encode", "decode", "format", "join", "split", "debug", "info",
                "warning", "error", "exception", "monotonic", "time")

    def fields_named(self, f):
        return set((cn, f) for cn, cm in C.CLASSES.items() if f in cm.fields)

    def is_exc_class_local(self, name):
        """A local only ever assigned `Errors.for_code(...)` / `for_code(...)` holds an exception class."""
        vals = [a.value for a in ast.walk(self.fnode) if isinstance(a, ast.Assign)
                and any(isinstance(t, ast.Name) and t.id == name for t in a.targets)]
        stores = [x for x in ast.walk(self.fnode) if isinstance(x, ast.Name) and x.id == name and isinstance(x.ctx, ast.Store)]
        return bool(vals) and len(stores) == len(vals) and all(
            isinstance(v, ast.Call) and ast.unparse(v.func).split(".")[-1] == "for_code" for v in vals)

    def body_write_set(self, body):
        """Over-approximation of the heap maps a loop body may write; None = unknown (whole frame)."""
        ws = set()
        for n in body:
            for x in ast.walk(n):
                if isinstance(x, (ast.Await, ast.Yield, ast.YieldFrom)):
                    continue        # the suspension itself writes nothing of ours; havoc_loop adds the yield havoc
                if isinstance(x, ast.Attribute) and isinstance(x.ctx, (ast.Store, ast.Del)):
                    ws |= self.fields_named(x.attr)
                elif isinstance(x, ast.Subscript) and isinstance(x.ctx, (ast.Store, ast.Del)):
                    b = x.value
                    while isinstance(b, ast.Subscript):
                        b = b.value
                    if isinstance(b, ast.Attribute):
                        ws |= self.fields_named(b.attr)
                    elif not isinstance(b, ast.Name):
                        return None
                elif isinstance(x, ast.Call):
                    f = x.func
                    if isinstance(f, ast.Attribute):
                        m = f.attr
                        if isinstance(f.value, ast.Name) and f.value.id in ("log", "logger", "logging", "time", "Errors"):
                            continue
                        if m in self.FUT_MUT:
                            ws |= {("Future", "*")}
                        elif m in self.CONT_MUT:
                            b = f.value
                            while isinstance(b, ast.Subscript):
                                b = b.value
                            if isinstance(b, ast.Attribute):
                                ws |= self.fields_named(b.attr)
                            elif not isinstance(b, ast.Name):
                                return None
                        elif m in self.NO_WRITE:
                            continue
                        else:
                            cons = [c for (cls, mm), c in C.BY_METHOD.items() if mm == m]
                            cm = self.find_call_model(ast.unparse(f))
                            if cm is not None:
                                if cm.havoc_all:
                                    return None
                                locs = [(None, l) for l in cm.modifies]
                            elif cons:
                                locs = [(c, l) for c in cons for l in c.modifies_]
                            else:
                                return None
                            for c, loc in locs:
                                head, _, fld = loc.rpartition(".")
                                if head in C.CLASSES or head == "Future":
                                    ws.add((head, fld))
                                elif c is None and head in ("self", "self_") and fld != "*":
                                    ws |= self.fields_named(fld)    # a field of the receiver: every class with that field
                                elif c is not None and head == "self":
                                    ws.add((c.self_cls, fld))
                                elif c is not None and head.startswith("self.") and head.count(".") == 1:
                                    fty = C.CLASSES[c.self_cls].fields.get(head.split(".")[1])
                                    inner = fty.inner if isinstance(fty, Opt) else fty
                                    if isinstance(inner, Ref):
                                        ws.add((inner.cls, fld))
                                    else:
                                        return None
                                else:
                                    return None
                    elif isinstance(f, ast.Name):
                        if f.id in ("len", "min", "max", "isinstance", "int", "bool", "abs", "sorted", "list", "set", "tuple",
                                    "dict", "range", "enumerate", "repr", "str", "type", "create_future", "TopicPartition",
                                    "getattr", "frozenset", "bytes", "bytearray", "memoryview"):
                            continue
                        b = self.c.binds.get(f.id)
                        if isinstance(b, PyThing) and b.kind in ("tupctor", "opaquector"):
                            continue            # value constructors bound by the contract: no heap effect
                        if self.is_exc_class_local(f.id):
                            continue            # error_type(): instantiating an exception class writes no field of ours
                        con = C.BY_FUNC.get((self.module.dotted, f.id))
                        if con is None or con.modifies_:
                            if f.id in self.exc_names():
                                continue
                            return None
                    else:
                        return None
        return ws

    def havoc_frame(self, st, only=None):
        dummy = type("M", (), {"modifies_": self.c.modifies_})
        self.havoc_modifies(st, dummy, self.entry.env, only=only)
        # objects allocated by this activation may also have been modified
        for r in st.flags.get("fresh", []):
            pass
        if st.flags.get("fresh"):
            kinds = st.flags.get("fresh_cls", {})
            for (cls, fld) in list(st.heap):
                if only is not None and (cls, fld) not in only and (cls, "*") not in only:
                    continue                # the loop body never writes this field, of old objects or of new ones
                m = st.heap[(cls, fld)]
                ty = self.any_field_ty(cls, fld)
                for r in st.flags["fresh"]:
                    if kinds.get(r.get_id() if hasattr(r, "get_id") else None, cls) != cls:
                        continue            # an object allocated as another class has no such field
                    m = z3.Store(m, r, z3.FreshConst(ty.sort(), "hvf"))
                st.heap[(cls, fld)] = m
        self.alloc_boundary(st)

    def inv_bool(self, spec, st, extra, assume=False):
        f = self.spec_assume if assume else self.spec_bool
        out = []
        for l, e in spec.invariants:
            try:
                out.append((l, f(e, st, extra=extra, old=self.entry)))
            except Unsupported as ex:
                if "unbound name" not in str(ex):
                    raise
                # the invariant speaks of a local the code no longer has: it cannot be established (an obligation that
                # fails) and gives nothing to rely on (assumed as True); what depended on it goes to the witness search
                self.note("invariant %s of loop #%d of %s: %s - not established" % (l, spec.ordinal, self.c.qual, ex))
                if not assume:
                    self.__dict__.setdefault("_undecidable_invs", {})[(spec.ordinal, l)] = str(ex)
                out.append((l, z3.BoolVal(bool(assume))))
        return out

    def cut_loop(self, s, st, spec, kind):
        outs = []
        line = s.lineno
        zero = T.intval(0).t
        one = T.intval(1).t
        # ---- iteration domain
        iters = [(st, None)]
        dom = None
        if kind == "for":
            iters = []
            for s2, dv in self.for_domain(s, st):
                iters.append((s2, dv))
        for s0, dv in iters:
            extra0 = {}
            if dv is not None:
                extra0.update(self.dom_ghost(dv, "init", s0))
            # inv-init
            for lbl, g in self.inv_bool(spec, s0, extra0):
                und = getattr(self, "_undecidable_invs", {}).get((spec.ordinal, lbl))
                self.oblige(s0, "inv-init", "loop%d:%s" % (spec.ordinal, lbl), g, line, assume=not und, undecidable=und)
            # arbitrary iteration
            sh = s0.copy()
            ord_body = self.loop_ord
            self.havoc_loop(sh, s, spec)
            extra = {}
            if dv is not None:
                extra.update(self.dom_ghost(dv, "head", sh))
                # visible to the invariants of loops nested in this one as $done_<ordinal>, $i_<ordinal>, $dom_<ordinal>
                for gk, gv in extra.items():
                    sh.ghost["%s_%d" % (gk, spec.ordinal)] = gv
            for lbl, g in self.inv_bool(spec, sh, extra, assume=True):
                sh.assume(g)
            if getattr(self, "_loop_new_names", None):
                # the zero-iteration exit keeps those names unbound (a later use raises UnboundLocalError)
                sz = s0.copy()
                if kind == "while":
                    for s3, t in self.ev_truth(s.test, sz):
                        s3.assume(z3.Not(t))
                        if self.feasible(s3):
                            outs.append(Out("fall", s3))
                else:
                    sz.assume(self.dom_empty(dv))
                    if self.feasible(sz):
                        outs.append(Out("fall", sz))
            # exit path (a loop's `else:` block runs when the loop ends without `break`)
            def leave(se):
                if getattr(s, "orelse", None):
                    return self.exec_block(s.orelse, se)
                return [Out("fall", se)]
            sx = sh.copy()
            if kind == "while":
                conds = self.ev_truth(s.test, sx)
                for s3, t in conds:
                    se = s3.copy().assume(z3.Not(t))
                    if self.feasible(se):
                        outs.extend(leave(se))
                    sb = s3.copy().assume(t)
                    if self.feasible(sb):
                        outs.extend(self.loop_body(s, sb, spec, dv, line, ord_body, kind))
            elif dv["kind"] == "iter":
                # one modelled step of the iterator: exhausted (None) -> leave, else bind the target and run the body;
                # what the step raises propagates like any call's exceptions
                for s3, r in self.apply_model(sh.copy(), dv["model"], None, [dv["obj"]], {}, s, "iter"):
                    if not isinstance(r.ty, Opt):
                        raise Unsupported("an iterator step model must return Opt[...] (line %s)" % s.lineno)
                    se = s3.copy().assume(T.opt_is_none(r))
                    if self.feasible(se):
                        outs.extend(leave(se))
                    sb = s3.copy().assume(z3.Not(T.opt_is_none(r)))
                    if self.feasible(sb):
                        self.assign(sb, s.target, T.opt_val(r))
                        outs.extend(self.loop_body(s, sb, spec, dv, line, ord_body, kind))
            else:
                done = self.dom_done(dv, sh)          # also records the domain's range facts in sh
                se = sh.copy().assume(done)
                self.dom_exit(dv, se)
                if self.feasible(se):
                    outs.extend(leave(se))
                sb = sh.copy().assume(z3.Not(done))
                if self.feasible(sb):
                    self.dom_bind(s, dv, sb)
                    outs.extend(self.loop_body(s, sb, spec, dv, line, ord_body, kind))
        return outs

    def loop_body(self, s, sb, spec, dv, line, ord_body, kind):
        outs = []
        self.loop_ord = ord_body
        var0 = None
        if spec.decreases:
            var0 = self.spec_eval(spec.decreases, sb, extra=self.dom_ghost(dv, "head", sb) if dv else None, old=self.entry)
            self.oblige(sb, "term", "loop%d:bounded" % spec.ordinal, var0.t >= T.intval(0).t, line)
        for o in self.exec_block(s.body, sb):
            if o.kind in ("fall", "continue"):
                extra = self.dom_ghost(dv, "next", o.st) if dv is not None else {}
                for lbl, g in self.inv_bool(spec, o.st, extra):
                    self.oblige(o.st, "inv-keep", "loop%d:%s" % (spec.ordinal, lbl), g, line, assume=False,
                                undecidable=getattr(self, "_undecidable_invs", {}).get((spec.ordinal, lbl)))
                if var0 is not None:
                    v1 = self.spec_eval(spec.decreases, o.st, extra=extra, old=self.entry)
                    self.oblige(o.st, "term", "loop%d:decreases" % spec.ordinal, v1.t < var0.t, line, assume=False)
            elif o.kind == "break":
                outs.append(Out("fall", o.st))
            else:
                outs.append(o)
        return outs

    # ---- iteration domains: range / list / set / dict
    def for_domain(self, s, st):
        it = s.iter
        res = []
        if isinstance(it, ast.Call) and isinstance(it.func, ast.Name) and it.func.id == "range" and "range" not in st.env:
            for s2, args in self.ev_list(it.args, st):
                if len(args) == 1:
                    lo, hi = T.intval(0), args[0]
                elif len(args) == 2:
                    lo, hi = args
                else:
                    raise Unsupported("range with step")
                res.append((s2, {"kind": "range", "lo": lo, "hi": hi}))
            return res
        if isinstance(it, ast.Call) and isinstance(it.func, ast.Name) and it.func.id == "reversed" and len(it.args) == 1:
            for s2, v in self.ev(it.args[0], st):
                if not isinstance(v.ty, List):
                    raise Unsupported("reversed(%s)" % v.ty)
                res.append((s2, {"kind": "list", "list": V(v.ty, v.t), "rev": True}))
            return res
        if isinstance(it, ast.Call) and isinstance(it.func, ast.Name) and it.func.id == "enumerate":
            for s2, v in self.ev(it.args[0], st):
                res.append((s2, {"kind": "list", "list": v, "enum": True}))
            return res
        for s2, v in self.ev(it, st):
            if isinstance(v.ty, Opt):
                self.fork_raise(s2, T.opt_is_none(v), "TypeError")
                v = T.opt_val(v)
            cm_it = self.find_call_model("iter:" + ast.unparse(it))
            if cm_it is not None:
                # an iterator whose steps the contract models (`c.call("iter:<expr>", ...)`: one call per step with the
                # iterated object as a0, result None = exhausted): each step may also raise what the model says
                res.append((s2, {"kind": "iter", "obj": v, "model": cm_it}))
                continue
            if isinstance(v.ty, List) or v.ty == BYTES:
                res.append((s2, {"kind": "list", "list": V(v.ty, v.t)}))
            elif isinstance(v.ty, Set):
                res.append((s2, {"kind": "set", "set": V(v.ty, v.t), "ety": v.ty.elem}))
            elif isinstance(v.ty, Dict):
                res.append((s2, {"kind": "set", "set": V(Set(v.ty.k), T.dict_dom(v)), "ety": v.ty.k}))
            elif v.ty == PYOBJ and v.t.kind in ("dictkeys", "dictvalues", "dictitems"):
                d = v.t.dict
                res.append((s2, {"kind": "set", "set": V(Set(d.ty.k), T.dict_dom(d)), "ety": d.ty.k,
                                 "dict": V(d.ty, d.t), "view": v.t.kind}))
            elif v.ty == PYOBJ and v.t.kind == "setiter":
                a = v.t.set
                res.append((s2, {"kind": "set", "set": V(a.ty, a.t), "ety": a.ty.elem}))
            elif isinstance(v.ty, Ref) and getattr(C.CLASSES.get(v.ty.cls), "iter_field", None):
                # an object whose __iter__ yields the elements of one of its (ghost) list fields
                fld = C.CLASSES[v.ty.cls].iter_field
                lst = self.hread(s2, v.t, v.ty.cls, fld)
                res.append((s2, {"kind": "list", "list": V(lst.ty, lst.t)}))
            else:
                raise Unsupported("iteration over %s (line %s)" % (v.ty, s.lineno))
        return res

    def dom_ghost(self, dv, phase, st):
        """Ghost names visible in invariants: $i (index / count of completed iterations),
        $done (set of visited elements)."""
        k = dv["kind"]
        zero, one = T.intval(0).t, T.intval(1).t
        if k == "iter":
            return {}                   # a modelled iterator has no index: invariants speak of the program's own variables
        if k in ("range", "list"):
            base = dv["lo"].t if k == "range" else zero
            if phase == "init":
                return {"G_i": V(INT, base)}
            if phase == "head":
                if "i" not in dv:
                    dv["i"] = self.fresh(INT, "i")
                return {"G_i": dv["i"]}
            return {"G_i": V(INT, dv["i"].t + one)}
        if k == "set":
            sty = dv["set"].ty
            # $dom: the set iterated over, as evaluated once when the loop was entered
            if phase == "init":
                return {"G_done": V(sty, z3.K(sty.elem.sort(), False)), "G_dom": dv["set"]}
            if phase == "head":
                if "done" not in dv:
                    dv["done"] = self.fresh(sty, "done")
                return {"G_done": dv["done"], "G_dom": dv["set"]}
            return {"G_done": V(sty, z3.Store(dv["done"].t, dv["cur"].t, True)), "G_dom": dv["set"]}
        raise Unsupported("domain")

    def dom_done(self, dv, st):
        k = dv["kind"]
        self.dom_ghost(dv, "head", st)
        if k == "range":
            i = dv["i"].t
            st.assume(i >= dv["lo"].t)
            return i >= dv["hi"].t
        if k == "list":
            i = dv["i"].t
            st.assume(i >= T.intval(0).t)
            st.assume(i <= T.list_len(dv["list"]))
            return i >= T.list_len(dv["list"])
        if k == "set":
            done = dv["done"].t
            # $done is a subset of the iterated set
            x = z3.FreshConst(dv["ety"].sort(), "x")
            st.assume(z3.ForAll([x], z3.Implies(z3.Select(done, x), z3.Select(dv["set"].t, x))))
            return done == dv["set"].t
        raise Unsupported("domain")

    def dom_empty(self, dv):
        k = dv["kind"]
        if k == "range":
            return dv["lo"].t >= dv["hi"].t
        if k == "list":
            return T.list_len(dv["list"]) == T.intval(0).t
        if k == "set":
            return dv["set"].t == z3.K(dv["ety"].sort(), False)
        raise Unsupported("domain")

    def dom_exit(self, dv, st):
        """A for-loop that runs to exhaustion has performed exactly the domain's number of
        iterations (semantics of range/list iteration; `break` exits elsewhere)."""
        k = dv["kind"]
        if k == "range":
            lo, hi = dv["lo"].t, dv["hi"].t
            st.assume(dv["i"].t == z3.If(hi > lo, hi, lo))
        elif k == "list":
            st.assume(dv["i"].t == T.list_len(dv["list"]))

    def dom_bind(self, s, dv, st):
        k = dv["kind"]
        if k == "range":
            self.assign(st, s.target, dv["i"])
        elif k == "list":
            lst = dv["list"]
            idx = dv["i"].t
            if dv.get("rev"):
                idx = T.list_len(lst) - T.intval(1).t - idx      # reversed(): $i still counts completed iterations
            if lst.ty == BYTES:
                el = V(INT, self.byte_to_int(z3.Select(T.list_arr(lst), idx)))
            else:
                el = V(lst.ty.elem, z3.Select(T.list_arr(lst), idx))
            self.assume_valid(st, el)
            if dv.get("enum"):
                el = V(PYOBJ, PyThing("pytuple", items=[dv["i"], el]))
            self.assign(st, s.target, el)
        elif k == "set":
            cur = self.fresh(dv["ety"], "cur")
            dv["cur"] = cur
            st.assume(z3.Select(dv["set"].t, cur.t))
            st.assume(z3.Not(z3.Select(dv["done"].t, cur.t)))
            self.assume_valid(st, cur)
            view = dv.get("view")
            if view in ("dictvalues", "dictitems"):
                d = dv["dict"]
                val = V(d.ty.v, z3.Select(T.dict_val(d), cur.t))
                self.assume_valid(st, val)
                st.ghost["G_key"] = cur
                if view == "dictvalues":
                    self.assign(st, s.target, val)
                else:
                    self.assign(st, s.target, V(PYOBJ, PyThing("pytuple", items=[cur, val])))
            else:
                self.assign(st, s.target, cur)

    def st_Break(self, s, st):
        return [Out("break", st)]

    def st_Continue(self, s, st):
        return [Out("continue", st)]

    # -------------------------------------------------------------- await / yield
    def await_point(self, st, v, node):
        """`await e`: e already evaluated. A contracted coroutine has been applied (its
        contract accounts for its own suspension); anything else is a bare yield point."""
        if v.ty == PYOBJ and v.t.kind == "awaited":
            return [(st, v.t.value)]
        if isinstance(v.ty, Ref) and v.ty.cls == "Future" or (isinstance(v.ty, Opt) and isinstance(v.ty.inner, Ref) and v.ty.inner.cls == "Future"):
            if isinstance(v.ty, Opt):
                self.oblige(st, "none", "await", z3.Not(T.opt_is_none(v)))
                v = T.opt_val(v)
            for expr in getattr(self.c, "shared_", []):
                # a task cancelled while it awaits a future cancels that future: never one that other tasks share
                sv = self.spec_eval(expr, st, old=self.entry)
                same = (z3.And(z3.Not(T.opt_is_none(sv)), T.opt_val(sv).t == v.t) if isinstance(sv.ty, Opt) else sv.t == v.t)
                self.oblige(st, "await", "cancelling-this-task-cannot-cancel-the-shared-future:" + expr, z3.Not(same),
                            getattr(node, "lineno", self.cur_line))
            self.yield_point(st, node)
            state = self.fut_state(st, v)
            st.assume(state != T.intval(0).t)
            return self.future_method(st, v, "result", [], {}, node)
        self.yield_point(st, node)
        return [(st, v if v.ty != PYOBJ else NONEV)]

    def yield_point(self, st, node=None):
        line = getattr(node, "lineno", self.cur_line)
        for lbl, e in self.c.yield_inv_:
            self.oblige(st, "yield-inv", lbl, self.spec_bool(e, st, old=self.entry), line)
        self.yield_havoc(st)

    def yield_havoc(self, st):
        pre = st.copy()
        keep = []
        for loc in self.c.owns_:
            keep.append(loc)
        known = set(self.heap0) | set(st.heap)
        for cname, cm in C.CLASSES.items():
            for f in cm.fields:
                known.add((cname, f))
        for f in FUTURE_FIELDS:
            known.add(("Future", f))
        for (cls, fld) in known:
            try:
                ty = self.any_field_ty(cls, fld)
            except Unsupported:
                continue
            newm = z3.FreshConst(z3.ArraySort(z3.IntSort(), ty.sort()), "y_%s_%s" % (cls, _safe(fld)))
            if (cls, fld) not in self.heap0 and (cls, fld) not in st.heap \
                    and not any(loc.rpartition(".")[2] in ("*", fld) and
                                (loc.rpartition(".")[0] == cls or loc.rpartition(".")[0] not in C.CLASSES)
                                for loc in keep):
                # never read or written so far and not owned: the new map needs no link to the entry map (which is
                # created, with its well-formedness axiom, only if an old() expression asks for it later)
                st.heap[(cls, fld)] = newm
                continue
            oldm = self.hmap(st, cls, fld, ty)
            st.heap[(cls, fld)] = newm
            # owned locations keep their value
            for loc in keep:
                head, _, f = loc.rpartition(".")
                if f != "*" and f != fld:
                    continue
                if head in C.CLASSES or head == "Future":
                    if head == cls:
                        st.heap[(cls, fld)] = oldm
                    continue
                hv = self.spec_eval(head, pre, old=self.entry)
                rty = hv.ty.inner if isinstance(hv.ty, Opt) else hv.ty
                if isinstance(rty, Ref) and rty.cls == cls:
                    st.heap[(cls, fld)] = z3.Store(st.heap[(cls, fld)], hv.t, z3.Select(oldm, hv.t))
            # objects allocated by this activation and never published stay private
        self.alloc_boundary(st)
        # futures resolve at most once: done-ness and results are stable
        r = z3.FreshConst(z3.IntSort(), "r")
        os_ = self.hmap(pre, "Future", "state")
        ns_ = self.hmap(st, "Future", "state")
        st.assume(z3.ForAll([r], z3.Implies(z3.Select(os_, r) != T.intval(0).t, z3.Select(ns_, r) == z3.Select(os_, r))))
        for g in list(st.ghost):
            if g.startswith("G_atomic"):
                st.ghost[g] = T.boolval(False)
        for lbl, e in self.c.rely_:
            st.assume(self.spec_assume(e, st, old=pre))
        for cname, lbl, e, recv in getattr(self, "stable_invs", []):
            pass

    def do_yield(self, e, st):
        if isinstance(e, ast.YieldFrom):
            raise Unsupported("yield from")
        outs = []
        vals = self.ev(e.value, st) if e.value is not None else [(st, NONEV)]
        for s2, v in vals:
            y = s2.ghost.get("G_yielded")
            if y is not None:
                cv = T.coerce(v, y.ty.elem)
                if cv is None:
                    raise Unsupported("yield of %s into $yielded : %s" % (v.ty, y.ty))
                ln = T.list_len(y)
                s2.ghost["G_yielded"] = T.list_mk(y.ty, z3.Store(T.list_arr(y), ln, cv.t), ln + T.intval(1).t)
            for h in self.c.hooks:
                if h[0] == "yield":
                    s2.env["G_yield_value"] = v
                    self.run_hook(s2, h, e)
            self.yield_point(s2, e)
            outs.append(Out("fall", s2))
        return outs

    def ev_Yield(self, e, st):
        outs = self.do_yield(e, st)
        return [(o.st, NONEV) for o in outs]


def _as_load(t):
    import copy
    t2 = copy.deepcopy(t)
    for x in ast.walk(t2):
        if hasattr(x, "ctx"):
            x.ctx = ast.Load()
    return t2


def _as_store_holder(t):
    return t
