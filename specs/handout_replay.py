"""Replay scenarios for the hand-out gate of the real Fetcher (C05 / C03): getone()/getmany() parked or called around
the start of a rebalance, records for the partition arriving meanwhile. Runs under /venv/bin/python.

sweep() -> list of problem strings."""
import asyncio
import logging

logging.disable(logging.CRITICAL)


def _batch(offset, n=2):
    import struct
    from aiokafka.record.default_records import DefaultRecordBatchBuilder
    b = DefaultRecordBatchBuilder(magic=2, compression_type=0, batch_size=1 << 20, is_transactional=0, producer_id=-1,
                                  producer_epoch=-1, base_sequence=0)
    for i in range(n):
        b.append(offset=i, value=b"v%d" % i, key=None, timestamp=None, headers=[])
    raw = bytearray(b.build())
    raw[0:8] = struct.pack(">q", offset)
    return bytes(raw)


async def scenario(api, when):
    """api: 'getone' | 'getmany'; when: the call is 'parked' on the fetch waiter before the rebalance begins, or issued
    'after' it began; in both cases records for the partition are buffered while the rebalance is in progress"""
    from aiokafka.client import AIOKafkaClient
    from aiokafka.consumer.fetcher import Fetcher, FetchResult, PartitionRecords
    from aiokafka.consumer.subscription_state import SubscriptionState
    from aiokafka.record.memory_records import MemoryRecords
    from aiokafka.structs import TopicPartition
    client = AIOKafkaClient(bootstrap_servers=[])
    subs = SubscriptionState()
    subs.subscribe({"t"})
    tp = TopicPartition("t", 0)
    subs.assign_from_subscribed([tp])
    assignment = subs.subscription.assignment
    subs.seek(tp, 0)
    fetcher = Fetcher(client, subs)
    fetcher._get_actions_per_node = lambda a: ([], {}, None, False, [])          # the fetch routine stays idle
    try:
        def buffer_records():
            pr = PartitionRecords(tp, MemoryRecords(_batch(0)), [], 0, None, None, True, 0)
            fetcher._records[tp] = FetchResult(tp, partition_records=pr, assignment=assignment, backoff=0)
            for w in list(fetcher._fetch_waiters):
                fetcher._notify(w)

        def call():
            if api == "getone":
                return fetcher.next_record([])
            return fetcher.fetched_records([], timeout=5)
        task = None
        if when == "parked":
            task = asyncio.ensure_future(call())
            await asyncio.sleep(0.01)
        subs.begin_reassignment()                      # the coordinator starts a rebalance (_on_join_prepare)
        if when == "after":
            task = asyncio.ensure_future(call())
            await asyncio.sleep(0.01)
        buffer_records()                               # an in-flight fetch response for the old assignment arrives
        await asyncio.sleep(0.05)
        if task.done():
            res = task.result()
            got = res if api == "getone" else sum(len(v) for v in res.values())
            if got:
                return "%s %s the rebalance began returned records while the rebalance was in progress: %r" % (api, when, res if api == "getone" else {k: len(v) for k, v in res.items()})
        task.cancel()
        try:
            await task
        except BaseException:
            pass
        return None
    finally:
        await fetcher.close()


async def failing_neighbour(kind, order, max_records):
    """getmany() over two buffered partitions: `good` holds three valid records, `poisoned` a batch that cannot be handed
    out (kind 'crc': a flipped bit with check_crcs on; 'deser': the user's value deserializer raises). Whatever getmany()
    does - return, raise, raise later - a partition's position may only pass records the application was given."""
    from aiokafka.client import AIOKafkaClient
    from aiokafka.consumer.fetcher import Fetcher, FetchResult, PartitionRecords
    from aiokafka.consumer.subscription_state import SubscriptionState
    from aiokafka.record.memory_records import MemoryRecords
    from aiokafka.structs import TopicPartition
    client = AIOKafkaClient(bootstrap_servers=[])
    subs = SubscriptionState()
    subs.subscribe({"t"})
    good, poisoned = TopicPartition("t", 0), TopicPartition("t", 1)
    subs.assign_from_subscribed([good, poisoned])
    assignment = subs.subscription.assignment
    subs.seek(good, 0)
    subs.seek(poisoned, 0)
    fetcher = Fetcher(client, subs)
    fetcher._get_actions_per_node = lambda a: ([], {}, None, False, [])          # the fetch routine stays idle
    try:
        raw = _batch(0, 3)
        flipped = bytearray(raw)
        flipped[-1] ^= 0x55

        def boom(_):
            raise ValueError("value deserializer failed")
        pg = PartitionRecords(good, MemoryRecords(raw), [], 0, None, None, True, 0)
        if kind == "crc":
            pp = PartitionRecords(poisoned, MemoryRecords(bytes(flipped)), [], 0, None, None, True, 0)
        else:
            pp = PartitionRecords(poisoned, MemoryRecords(raw), [], 0, None, boom, True, 0)
        for tp, pr in ((good, pg), (poisoned, pp)) if order == "good-first" else ((poisoned, pp), (good, pg)):
            fetcher._records[tp] = FetchResult(tp, partition_records=pr, assignment=assignment, backoff=0)
        given = {good: [], poisoned: []}
        errors = []
        for _ in range(4):
            try:
                res = await fetcher.fetched_records([], timeout=0, max_records=max_records)
            except Exception as e:
                errors.append(type(e).__name__)
                continue
            for tp, msgs in res.items():
                given[tp].extend(m.offset for m in msgs)
        for tp in (good, poisoned):
            pos = assignment.state_value(tp).position
            missing = [o for o in range(pos) if o not in given[tp]]
            if missing:
                return ("getmany(max_records=%r) with %s buffered %s and the other partition failing with %s: position of %s is %d "
                        "but records %r were never returned (returned %r, raised %r)"
                        % (max_records, tp, order, kind, tp, pos, missing, given[tp], errors))
        return None
    finally:
        await fetcher.close()


def sweep():
    async def main():
        out = []
        for kind in ("crc", "deser"):
            for order in ("good-first", "poisoned-first"):
                for max_records in (None, 2, 10):
                    r = await failing_neighbour(kind, order, max_records)
                    if r:
                        out.append(r)
        for api in ("getone", "getmany"):
            for when in ("parked", "after"):
                r = await scenario(api, when)
                if r:
                    out.append(r)
        return out
    return asyncio.run(main())


if __name__ == "__main__":
    for b in sweep():
        print(b)
