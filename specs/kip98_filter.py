"""Oracle for C08: the consumer-side isolation filter of the Java client
(org.apache.kafka.clients.consumer.internals.Fetcher / CompletedFetch, KIP-98), DESIGN.md Appendix C.5.
Pure Python (no z3): used by the witness search of PartitionRecords._unpack_records and by bounded/C08.py.

A log slice is a list of batches, each a dict:
  base, next: offsets [base, next)      pid: producer id or None      txn: transactional flag
  control: None | "ABORT" | "COMMIT"    offsets: offsets of the records the batch still holds (compaction gaps allowed)
"""
READ_UNCOMMITTED, READ_COMMITTED = 0, 1


def deliver(batches, aborted, fetch_offset, isolation):
    """Returns (delivered offsets in order, final next_fetch_offset)."""
    A = sorted(aborted or [], key=lambda x: x[1])          # (producer id, first offset)
    S = set()
    nfo = fetch_offset
    out = []
    for b in batches:
        if isolation == READ_COMMITTED and b["pid"] is not None:
            # Java uses batch.lastOffset(); a transaction's batches never straddle another transaction of the
            # same producer, so for the membership decision base offset and last offset are equivalent
            while A and A[0][1] <= b["base"]:
                S.add(A.pop(0)[0])
            if b["control"] == "ABORT":
                S.discard(b["pid"])
            if b["txn"] and b["pid"] in S:
                nfo = b["next"]
                continue
        if b["control"] is not None:
            nfo = b["next"]
            continue
        for off in b["offsets"]:
            if off >= nfo:
                out.append(off)
                nfo = off + 1
        nfo = b["next"]
    return out, nfo
