"""Replay for the memory-safety obligations of the compiled record decoders (C10). Runs under /venv/bin/python.

The decoders are rebuilt from the .pyx sources of the tree under test (tools/cext.py), then fed crafted buffers:
  * in-process: an internal error (SystemError / MemoryError), or a decode that does not terminate, is a violation;
  * the same cases once more in a child process under valgrind (PYTHONMALLOC=malloc, inputs copied into exact-size
    heap blocks): an 'Invalid read' inside one of the extension modules is a read outside the supplied buffer.
sweep(which) -> list of problem strings; which in {"legacy", "default", "memory"}."""
import os
import struct
import subprocess
import sys

HERE = os.path.dirname(os.path.dirname(os.path.abspath(__file__)))


def ext_dir():
    sys.path.insert(0, os.path.join(HERE, "tools"))
    import cext
    return cext.ensure(os.environ.get("PYVC_REPO", "/repo"))


# ------------------------------------------------------------------ crafted inputs
def legacy_msg(magic, key, value, keylen=None, vallen=None, tail=b"", attrs=0, offset=0):
    body = struct.pack(">I", 0) + bytes([magic, attrs])
    if magic == 1:
        body += struct.pack(">q", 1000)
    body += struct.pack(">i", len(key) if keylen is None else keylen) + (key or b"")
    if vallen != "omit":
        body += struct.pack(">i", len(value) if vallen is None else vallen) + (value or b"")
    body += tail
    return struct.pack(">qi", offset, len(body)) + body


def legacy_cases():
    import gzip
    cs = []
    for magic in (0, 1):
        cs.append(("legacy v%d key length -2" % magic, magic, legacy_msg(magic, b"", b"", keylen=-2)))
        cs.append(("legacy v%d value length -7" % magic, magic, legacy_msg(magic, b"k", b"", vallen=-7)))
        cs.append(("legacy v%d key runs to the end of the buffer" % magic, magic, legacy_msg(magic, b"k" * 8, None, vallen="omit")))
        cs.append(("legacy v%d well-formed" % magic, magic, legacy_msg(magic, b"k", b"v")))
        for inner_len in (-12, -13, -2 ** 31, 5):
            inner = struct.pack(">qi", 0, inner_len) + b"\x00" * 3
            cs.append(("legacy v%d gzip wrapper, inner message length %d" % (magic, inner_len), magic,
                       legacy_msg(magic, b"", gzip.compress(inner), keylen=-1, attrs=1, offset=5)))
        # decompression itself fails: the batch must go on holding the bytes its buffer view points into
        good = gzip.compress(legacy_msg(magic, b"k", b"v"))
        cs.append(("hold: legacy v%d gzip wrapper whose payload does not inflate" % magic, magic,
                   legacy_msg(magic, b"", good[:12] + bytes([good[12] ^ 0xff]) + good[13:-8] + b"\x00" * 8, keylen=-1, attrs=1)))
        cs.append(("hold: legacy v%d wrapper with unknown codec bits 5" % magic, magic,
                   legacy_msg(magic, b"", good, keylen=-1, attrs=5)))
    cs.append(("hold: legacy v0 wrapper flagged LZ4", 0, legacy_msg(0, b"", b"\x04\x22\x4d\x18" + b"\x00" * 12, keylen=-1, attrs=3)))
    return cs


def v2_batch(records, base_offset=0):
    from aiokafka.record.default_records import _DefaultRecordBatchBuilderPy
    b = _DefaultRecordBatchBuilderPy(magic=2, compression_type=0, is_transactional=0, producer_id=-1, producer_epoch=-1,
                                     base_sequence=-1, batch_size=1 << 20)
    for i, (k, v) in enumerate(records):
        b.append(i, 1000 + i, k, v, [])
    raw = bytearray(b.build())
    raw[0:8] = struct.pack(">q", base_offset)
    return bytes(raw)


def default_cases():
    good = v2_batch([(b"k", b"v" * 5)])
    cs = [("v2 well-formed", 2, good)]
    # a buffer shorter than the 61-byte v2 header
    for n in (17, 26, 40, 60):
        cs.append(("v2 buffer of %d bytes (shorter than the header)" % n, 2, good[:n]))
    # a varint whose continuation bits run to the very end of the buffer
    cs.append(("v2 record length varint runs to the end of the buffer", 2, good[:61] + bytes([0xff, 0xff, 0xff])))
    cs.append(("v2 truncated after the record's key length", 2, good[:66]))
    def zz(n):
        v = (n << 1) ^ (n >> 63)
        out = bytearray()
        while v & ~0x7f:
            out.append((v & 0x7f) | 0x80)
            v >>= 7
        out.append(v)
        return bytes(out)
    for klen in (2 ** 62, 2 ** 63 - 1, 2 ** 63 - 70, 2 ** 31, 2 ** 32, 2 ** 32 + 2, 2 ** 33 + 1, 2 ** 48 + 1):
        rec = b"\x00" + zz(0) + zz(0) + zz(klen) + b"kk"
        cs.append(("v2 record with key length %d" % klen, 2, good[:61] + zz(len(rec)) + rec))
    # a header count nothing in the record backs (no key, no value): it has to be refused as corrupt, not allocated for
    for hcount in (2 ** 61, 2 ** 40, 2 ** 62 + 5):
        rec = b"\x00" + zz(0) + zz(0) + zz(-1) + zz(-1) + zz(hcount)
        cs.append(("v2 record announcing %d headers" % hcount, 2, good[:61] + zz(len(rec)) + rec))
    bad_count = bytearray(good)
    bad_count[57:61] = struct.pack(">i", 3)                      # claims 3 records, holds 1
    cs.append(("v2 record count larger than the records present", 2, bytes(bad_count)))
    return cs


def memory_cases():
    v2 = v2_batch([(b"k", b"v")])
    v0 = legacy_msg(0, b"k", b"v")
    v1 = legacy_msg(1, b"k", b"v")
    cs = [("memory: v2 + v0 + v1 concatenated", None, v2 + v0 + v1),
          ("memory: v1 + v2 concatenated", None, v1 + v2),
          ("memory: v2 followed by a 26-byte entry claiming magic 2", None, v2 + struct.pack(">qi", 7, 14) + bytes([0, 0, 0, 0, 2]) + bytes(9)),
          ("memory: trailing partial entry", None, v2 + v0[:20])]
    # a fetch response cut at max_bytes: the last entry misses its last k bytes
    for k in (1, 2, 11, 12, 13, len(v2) - 12, len(v2) - 11):
        cs.append(("memory: v2 + v2 without its last %d bytes" % k, None, v2 + v2[:len(v2) - k]))
    cs.append(("memory: v1 + v1 without its last 5 bytes", None, v1 + v1[:-5]))
    # an entry whose Length is negative: refused, and a caller that goes on after the error must find the cursor where a
    # cursor may be (run_case walks on after every CorruptRecordException)
    for ln in (-2 ** 31, -2 ** 31 + 1, -2 ** 30, -2 ** 24, -65536, -4096, -13, -12, -1, 0, 13, -(len(v2) + 12)):
        cs.append(("memory: v2 followed by an entry of Length %d" % ln, None, v2 + struct.pack(">qi", 1, ln) + bytes(30)))
    cs.append(("memory: first entry of Length -2^31", None, struct.pack(">qi", 0, -2 ** 31) + bytes(40)))
    return cs


def decode_all(impl, data):
    """-> list of (offset, key, value) per record over all batches, or the exception class name"""
    if impl == "c":
        from aiokafka.record._crecords.memory_records import MemoryRecords
    else:
        from aiokafka.record.memory_records import _MemoryRecordsPy as MemoryRecords
    out = []
    try:
        m = MemoryRecords(bytes(data))
        while True:
            announced = bool(m.has_next())
            b = m.next_batch()
            if announced != (b is not None):
                # has_next() is how the fetcher decides whether a response holds a record at all
                out.append("has_next() said %s, next_batch() returned %s" % (announced, "None" if b is None else "a batch"))
            if b is None:
                break
            for r in b:
                out.append((r.offset, r.key, r.value))
    except (SystemError, MemoryError):
        raise
    except Exception as e:
        out.append("raised " + type(e).__name__)
    return out


def exact_block(data):
    """the bytes in a heap block of exactly their length (bytes / bytearray objects carry a trailing NUL that would hide
    a one-byte over-read)"""
    import array
    return array.array("b", [x - 256 if x > 127 else x for x in data])


def run_case(kind, magic, data, name=""):
    """decode fully; -> None or a problem string (internal errors only; clean exceptions are fine)"""
    from aiokafka.errors import CorruptRecordException
    try:
        if kind == "legacy":
            from aiokafka.record._crecords.legacy_records import LegacyRecordBatch
            src = bytes(bytearray(data))
            before = sys.getrefcount(src)
            b = LegacyRecordBatch(src, magic)
            held = sys.getrefcount(src)
            try:
                for _ in b:
                    pass
            except (SystemError, MemoryError):
                raise
            except Exception:
                # the batch object is still alive: validate_crc() or another pass over it reads through its buffer view
                # ("hold:" cases fail inside the decompression step, i.e. before the view is re-pointed at the inflated bytes)
                if name.startswith("hold:") and held > before and sys.getrefcount(src) < held:
                    return ("after the failed iteration the batch no longer holds the bytes its buffer view points into "
                            "(references %d -> %d): validate_crc() would read memory it does not own" % (held, sys.getrefcount(src)))
                del src
                b.validate_crc()             # under valgrind: an invalid read if the bytes were given back
        elif kind == "default":
            from aiokafka.record._crecords.default_records import DefaultRecordBatch
            b = DefaultRecordBatch(exact_block(data))
            for _ in b:
                pass
        else:
            c, p = decode_all("c", data), decode_all("py", data)
            if any(isinstance(x, str) and x.startswith("has_next") for x in c + p):
                return "has_next() and next_batch() disagree: compiled %r, python %r" % (c[-3:], p[-3:])
            if c != p:
                return "compiled and pure-Python decoders disagree: compiled %r, python %r" % (c[:6], p[:6])
            # a caller that skips what it cannot decode: the cursor stays a cursor (no read outside the bytes, no batch
            # handed out again and again)
            from aiokafka.record._crecords.memory_records import MemoryRecords
            m = MemoryRecords(exact_block(data) if False else bytes(data))
            got = 0
            for _ in range(60):
                try:
                    b = m.next_batch()
                except CorruptRecordException:
                    m.has_next()
                    continue
                if b is None:
                    break
                got += 1
            if got > len(data) // 26 + 1:
                return "a caller that goes on after CorruptRecordException was handed %d batches out of %d bytes" % (got, len(data))
    except (SystemError, MemoryError) as e:
        return "raised %s: %s" % (type(e).__name__, e)
    except Exception:
        return None
    return None


CASES = {"legacy": legacy_cases, "default": default_cases, "memory": memory_cases}


def child(which, only=None):
    sys.path.insert(0, ext_dir())
    import signal
    for i, (name, magic, data) in enumerate(CASES[which]()):
        if only is not None and i not in only:
            continue
        print("CASE %d %s" % (i, name), flush=True)
        sys.stderr.write("CASE %d %s\n" % (i, name))
        sys.stderr.flush()
        signal.alarm(10)
        try:
            r = run_case(which, magic, data, name)
        finally:
            signal.alarm(0)
        if r:
            print("PROBLEM %d %s: %s" % (i, name, r), flush=True)


def sweep(which, valgrind=True):
    bad = []
    env = dict(os.environ, PYTHONMALLOC="malloc")
    me = os.path.abspath(__file__)
    # plain behaviour: one child per case, so that a hang or a crash is attributed to its case and the others still run
    ncases = len(CASES[which]())
    terminated = []
    for k in range(ncases):
        r = subprocess.run([sys.executable, me, "child", which, str(k)], capture_output=True, text=True, timeout=120, env=env)
        cur = None
        for ln in r.stdout.splitlines():
            if ln.startswith("CASE "):
                cur = ln[5:]
            elif ln.startswith("PROBLEM "):
                bad.append(ln[8:])
        if r.returncode != 0:
            bad.append("%s: decoder process died (exit %d, %s)" % (cur, r.returncode,
                       "SIGALRM: no termination within 10 s" if r.returncode == -14 else "signal/crash"))
        else:
            terminated.append(k)
    if valgrind and shutil_which("valgrind") and terminated:
        v = subprocess.run(["valgrind", "-q", "--error-limit=no", sys.executable, me, "child", which, ",".join(map(str, terminated))],
                           capture_output=True, text=True, timeout=1800, env=env)
        cur, seen = None, set()
        lines = v.stderr.splitlines()
        for i, ln in enumerate(lines):
            if ln.startswith("CASE "):
                cur = ln[5:]
            elif "Invalid read" in ln or "Invalid write" in ln:
                ctx = " ".join(lines[i:i + 6])
                if "_crecords" in ctx and cur not in seen:
                    seen.add(cur)
                    where = [x for x in ctx.split() if x.startswith("__pyx_")][:2]
                    bad.append("%s: valgrind %s in %s" % (cur, ln.split("==")[-1].strip(), " <- ".join(where)))
    return bad


def shutil_which(x):
    import shutil
    return shutil.which(x)


if __name__ == "__main__":
    if sys.argv[1] == "child":
        child(sys.argv[2], set(map(int, sys.argv[3].split(","))) if len(sys.argv) > 3 else None)
    else:
        for b in sweep(sys.argv[1]):
            print(b)
