"""C16 / C01 / C07 — aiokafka/producer/transaction_manager.py.

Every method gets: legal source states => stated effect; any other state => raises without
any effect (`unchanged(self)`); whole-object frames."""
from pyvc.contract import contract, classmodel, specfn
from pyvc.ty import V, INT, BOOL, STR, NONE, EXC, Opt, Tup, List, Set, Dict, Ref
from pyvc.exec_base import Fut
from .common import TP, enum_from_repo, tupctor

MOD = "aiokafka.producer.transaction_manager"
TS = enum_from_repo(MOD, "TransactionState")
TR = enum_from_repo(MOD, "TransactionResult")
PID = Tup(INT, INT, names=["pid", "epoch"])
OFFS = Ref("OffsetsDict")          # the mutable {tp: OffsetAndMetadata} a pending offset commit carries
PENDING = Tup(STR, OFFS, Fut(NONE))

classmodel("OffsetsDict", {"d": Dict(TP, INT)})

classmodel("TransactionManager", {
    "transactional_id": Opt(STR),
    "transaction_timeout_ms": INT,
    "state": TS,
    "_pid_and_epoch": PID,
    "_pid_waiter": Fut(NONE),
    "_sequence_numbers": Dict(TP, INT, default=0),
    "_transaction_waiter": Opt(Fut(NONE)),
    "_task_waiter": Opt(Fut(NONE)),
    "_txn_partitions": Set(TP),
    "_pending_txn_partitions": Set(TP),
    "_txn_consumer_groups": Set(STR),
    "_pending_txn_offsets": List(PENDING),
    "_abortable_error": Opt(EXC),
}, real=MOD + ":TransactionManager",
    props={"producer_id": "self._pid_and_epoch[0]", "producer_epoch": "self._pid_and_epoch[1]",
           "txn_partitions": "self._txn_partitions"})

# ---- object invariant (a precondition of every method, re-established by every method) -----
INV_WAITER = ("implies(self.state == TransactionState.IN_TRANSACTION or self.state == TransactionState.COMMITTING_TRANSACTION"
              " or self.state == TransactionState.ABORTING_TRANSACTION or self.state == TransactionState.ABORTABLE_ERROR,"
              " self._transaction_waiter is not None)")
INV_ABORTABLE = ("implies(self.state == TransactionState.ABORTABLE_ERROR,"
                 " self._transaction_waiter.done() and not self._transaction_waiter.cancelled()"
                 " and self._transaction_waiter.exception() is not None)")
INV_PENDING = ("forall(lambda j: implies(0 <= j < len(self._pending_txn_offsets),"
               " not self._pending_txn_offsets[j][2].done()))")
INV_DISTINCT = ("forall(lambda j, k: implies(0 <= j < k < len(self._pending_txn_offsets),"
                " self._pending_txn_offsets[j][2] != self._pending_txn_offsets[k][2]))")
INV_SEPARATE = ("forall(lambda j: implies(0 <= j < len(self._pending_txn_offsets),"
                " self._pending_txn_offsets[j][2] != self._transaction_waiter"
                " and self._pending_txn_offsets[j][2] != self._task_waiter"
                " and self._pending_txn_offsets[j][2] != self._pid_waiter))")
INV_ALLOC = ("forall(lambda j: implies(0 <= j < len(self._pending_txn_offsets),"
             " allocated(self._pending_txn_offsets[j][2])))")
INV_WAITERS = ("(self._task_waiter is None or (self._task_waiter != self._transaction_waiter and self._task_waiter != self._pid_waiter))"
               " and (self._transaction_waiter is None or self._transaction_waiter != self._pid_waiter)")
INVS = [("pending-futures-allocated", INV_ALLOC), ("waiters-distinct", INV_WAITERS), ("waiter-exists", INV_WAITER), ("abortable-has-error", INV_ABORTABLE), ("pending-futures-pending", INV_PENDING),
        ("pending-futures-distinct", INV_DISTINCT), ("pending-futures-separate", INV_SEPARATE)]


def inv(c, ensure=True):
    c.bind("TransactionState", None)        # resolved from the module (enum)
    del c.binds["TransactionState"]
    for lbl, e in INVS:
        c.requires(e, "inv:" + lbl)
        if ensure:
            c.ensures("inv:" + lbl, e)


S = "TransactionState."


# =============================================================================== the table
@contract(MOD + ":TransactionState.is_transition_valid", "C16")
def _(c):
    c.param("source", TS)
    c.param("target", TS)
    c.returns(BOOL)
    c.pure = True
    # the table the property statement implies (DESIGN.md §4 C16)
    c.ensures("ready-from", "implies(target == cls.READY, result == (source == cls.UNINITIALIZED"
              " or source == cls.COMMITTING_TRANSACTION or source == cls.ABORTING_TRANSACTION))")
    c.ensures("in-transaction-from", "implies(target == cls.IN_TRANSACTION, result == (source == cls.READY))")
    c.ensures("committing-from", "implies(target == cls.COMMITTING_TRANSACTION, result == (source == cls.IN_TRANSACTION))")
    c.ensures("aborting-from", "implies(target == cls.ABORTING_TRANSACTION, result == (source == cls.IN_TRANSACTION"
              " or source == cls.ABORTABLE_ERROR))")
    c.ensures("fatal-from-anywhere", "implies(target == cls.FATAL_ERROR, result)")
    c.ensures("abortable-from-open-transaction", "implies(target == cls.ABORTABLE_ERROR and (source == cls.IN_TRANSACTION"
              " or source == cls.COMMITTING_TRANSACTION or source == cls.ABORTING_TRANSACTION or source == cls.ABORTABLE_ERROR), result)")
    c.ensures("nothing-leaves-fatal", "implies(source == cls.FATAL_ERROR and target != cls.FATAL_ERROR, not result)")

    @c.replay
    def replay(model, ob=None):
        return {"script": _TABLE_SCRIPT}


_TABLE_SCRIPT = '''
from aiokafka.producer.transaction_manager import TransactionState as S
def spec(s, t):
    if t == S.READY: return s in (S.UNINITIALIZED, S.COMMITTING_TRANSACTION, S.ABORTING_TRANSACTION)
    if t == S.IN_TRANSACTION: return s == S.READY
    if t == S.COMMITTING_TRANSACTION: return s == S.IN_TRANSACTION
    if t == S.ABORTING_TRANSACTION: return s in (S.IN_TRANSACTION, S.ABORTABLE_ERROR)
    if t == S.FATAL_ERROR: return True
    if s == S.FATAL_ERROR: return False
    if t == S.ABORTABLE_ERROR and s in (S.IN_TRANSACTION, S.COMMITTING_TRANSACTION, S.ABORTING_TRANSACTION, S.ABORTABLE_ERROR): return True
    return None      # unconstrained by the statement
bad = [(s.name, t.name, S.is_transition_valid(s, t)) for s in S for t in S
       if spec(s, t) is not None and bool(S.is_transition_valid(s, t)) != spec(s, t)]
VIOLATED = bool(bad); DETAIL = "is_transition_valid disagrees with the table at %r" % (bad,)
'''


@contract(MOD + ":TransactionManager._transition_to", "C16")
def _(c):
    c.self_("TransactionManager")
    c.param("target", TS)
    c.modifies("self.state")
    c.bind("cls", None)
    del c.binds["cls"]
    c.raises("invalid-transition", "AssertionError", when="not TransactionState.is_transition_valid(self.state, target)",
             ensures=[("no-effect", "unchanged(self)")], exact=True)
    c.ensures("state-set", "self.state == target")
    c.ensures("frame", "unchanged(self, 'transactional_id', '_pid_and_epoch', '_transaction_waiter', '_task_waiter',"
              " '_txn_partitions', '_pending_txn_partitions', '_txn_consumer_groups', '_pending_txn_offsets', '_sequence_numbers')")


# ========================================================================== the API methods
@contract(MOD + ":TransactionManager.begin_transaction", "C16")
def _(c):
    c.self_("TransactionManager")
    inv(c)
    c.modifies("self.state", "self._transaction_waiter")
    c.raises("out-of-order", "AssertionError", when="self.state != TransactionState.READY",
             ensures=[("no-effect", "unchanged(self)"), ("futures-untouched", "same_heap('Future')")], exact=True)
    c.ensures("in-transaction", "self.state == TransactionState.IN_TRANSACTION")
    c.ensures("fresh-pending-waiter", "fresh(self._transaction_waiter) and not self._transaction_waiter.done()")
    c.ensures("existing-futures-untouched", "forall(lambda r: implies(0 < r < old(nalloc()), fut_same(r)))")


@contract(MOD + ":TransactionManager.committing_transaction", ["C16", "C07"])
def _(c):
    c.self_("TransactionManager")
    inv(c)
    c.modifies("self.state", "self._task_waiter.state", "self._task_waiter.nres")
    c.raises("stored-abortable-error", "BaseException", when="self.state == TransactionState.ABORTABLE_ERROR",
             ensures=[("no-effect", "unchanged(self)"), ("futures-untouched", "same_heap('Future')")])
    c.raises("out-of-order", "AssertionError",
             when="self.state != TransactionState.IN_TRANSACTION and self.state != TransactionState.ABORTABLE_ERROR",
             ensures=[("no-effect", "unchanged(self)"), ("futures-untouched", "same_heap('Future')")])
    c.ensures("only-from-in-transaction", "old(self.state) == TransactionState.IN_TRANSACTION")
    c.ensures("committing", "self.state == TransactionState.COMMITTING_TRANSACTION")
    c.ensures("sender-woken", "implies(self._task_waiter is not None, self._task_waiter.done())")


@contract(MOD + ":TransactionManager.aborting_transaction", ["C16", "C07"])
def _(c):
    c.self_("TransactionManager")
    inv(c)
    c.modifies("self.state", "self._transaction_waiter", "self._task_waiter.state", "self._task_waiter.nres")
    c.raises("out-of-order", "AssertionError",
             when="self.state != TransactionState.IN_TRANSACTION and self.state != TransactionState.ABORTABLE_ERROR",
             ensures=[("no-effect", "unchanged(self)"), ("futures-untouched", "same_heap('Future')")], exact=True)
    c.ensures("aborting", "self.state == TransactionState.ABORTING_TRANSACTION")
    c.ensures("waiter-re-armed", "not self._transaction_waiter.done()")
    c.ensures("sender-woken", "implies(self._task_waiter is not None, self._task_waiter.done())")
    c.replay_fn = lambda model, ob=None: {"script": _ABORTING_SCRIPT}


# replay: a real manager aborts from each state it may abort from; abort_transaction() then waits on the transaction waiter
_ABORTING_SCRIPT = '''
import asyncio, logging
logging.disable(logging.CRITICAL)
from aiokafka.producer.transaction_manager import TransactionManager, TransactionState
async def main():
    bad = []
    for failed_first in (False, True):
        tm = TransactionManager("tid", 1000)
        tm.set_pid_and_epoch(1, 0)
        tm.begin_transaction()
        if failed_first:
            tm.error_transaction(RuntimeError("abortable"))
            tm._transaction_waiter.exception()
        tm.aborting_transaction()
        w = tm._transaction_waiter
        if tm.state != TransactionState.ABORTING_TRANSACTION or w is None or w.done():
            bad.append("abort %s: state %s, the future abort_transaction() waits for is %s"
                       % ("after an abortable error" if failed_first else "of a healthy transaction", tm.state.name,
                          "missing" if w is None else ("already done (the stored error is raised instead of waiting for EndTxn)" if w.done() else "pending")))
    return bad
bad = asyncio.run(main())
VIOLATED = bool(bad)
DETAIL = "%r" % (bad[:2],) if bad else "ok"
'''


@contract(MOD + ":TransactionManager.notify_task_waiter", ["C16", "C07"])
def _(c):
    c.self_("TransactionManager")
    c.modifies("self._task_waiter.state", "self._task_waiter.nres")
    c.ensures("woken", "implies(self._task_waiter is not None, self._task_waiter.done())")
    c.ensures("fields", "unchanged(self)")
    c.ensures("only-that-future", "implies(self._task_waiter is None, same_heap('Future'))")
    c.ensures("only-that-future2", "implies(self._task_waiter is not None, same_except('Future', 'state', self._task_waiter)"
              " and same_except('Future', 'nres', self._task_waiter) and same_heap('Future', 'exc'))")


@contract(MOD + ":TransactionManager.is_in_transaction", ["C16", "C07"])
def _(c):
    c.self_("TransactionManager")
    c.returns(BOOL)
    c.ensures("def", "result == (self.state == TransactionState.IN_TRANSACTION)")


@contract(MOD + ":TransactionManager.is_fatal_error", "C16")
def _(c):
    c.self_("TransactionManager")
    c.returns(BOOL)
    c.ensures("def", "result == (self.state == TransactionState.FATAL_ERROR)")


@contract(MOD + ":TransactionManager.abortable_error", ["C16", "C07"])
def _(c):
    c.self_("TransactionManager")
    c.returns(Opt(EXC))
    c.ensures("def", "result == self._abortable_error")


@contract(MOD + ":TransactionManager.needs_transaction_commit", ["C16", "C07"])
def _(c):
    c.self_("TransactionManager")
    c.returns(Opt(TR))
    c.ensures("commit", "(self.state == TransactionState.COMMITTING_TRANSACTION) == (result == TransactionResult.COMMIT)")
    c.ensures("abort", "(self.state == TransactionState.ABORTING_TRANSACTION) == (result == TransactionResult.ABORT)")
    c.ensures("otherwise-none", "implies(self.state != TransactionState.COMMITTING_TRANSACTION"
              " and self.state != TransactionState.ABORTING_TRANSACTION, result is None)")


@contract(MOD + ":TransactionManager.is_empty_transaction", "C07")
def _(c):
    c.self_("TransactionManager")
    c.returns(BOOL)
    c.ensures("def", "result == (is_empty(self._txn_partitions) and is_empty(self._txn_consumer_groups))")


@contract(MOD + ":TransactionManager.complete_transaction", ["C16", "C07", "C01"])
def _(c):
    c.self_("TransactionManager")
    inv(c)
    c.modifies("self.state", "self._txn_partitions", "self._txn_consumer_groups", "self._abortable_error",
               "self._transaction_waiter.state", "self._transaction_waiter.nres")
    c.ensures("the-ended-transactions-error-is-forgotten", "self._abortable_error is None")
    # only the EndTxn handler and the empty-transaction shortcut call it, while ending; should an error transition
    # (abortable / fatal) have overtaken the commit, the table refuses READY and nothing changes
    c.requires("self.state != TransactionState.UNINITIALIZED", "producer-id-was-initialised")
    c.raises("not-ending", "AssertionError",
             when="not TransactionState.is_transition_valid(self.state, TransactionState.READY)",
             ensures=[("no-effect", "unchanged(self)"), ("futures-untouched", "same_heap('Future')")], exact=True)
    c.raises("work-still-pending", "AssertionError",
             when="not (is_empty(self._pending_txn_partitions) and len(self._pending_txn_offsets) == 0)",
             ensures=[("no-effect", "unchanged(self)"), ("futures-untouched", "same_heap('Future')")], exact=True)
    c.ensures("ready", "self.state == TransactionState.READY")
    c.ensures("scope-cleared", "is_empty(self._txn_partitions) and is_empty(self._txn_consumer_groups)")
    # C01 "sequence numbers ... continue": producer id and epoch outlive the transaction, so do the per-partition counters
    c.ensures("the-sequence-counters-go-on-where-the-transaction-left-them", "self._sequence_numbers == old(self._sequence_numbers)")
    c.ensures("caller-released", "implies(self._transaction_waiter is not None, self._transaction_waiter.done())")
    c.replay_fn = lambda model, ob=None: {"script": _COMPLETE_SCRIPT}


# replay: two transactions on a real manager, each sending offsets for the same group; ended by commit or by abort.
# The second transaction must register the group with the coordinator again (AddOffsetsToTxn) and start with no partitions
_COMPLETE_SCRIPT = '''
import asyncio, logging
logging.disable(logging.CRITICAL)
from aiokafka.producer.transaction_manager import TransactionManager, TransactionState
from aiokafka.structs import TopicPartition, OffsetAndMetadata
async def main():
    bad = []
    for how in ("commit", "abort"):
        tm = TransactionManager("tid", 1000)
        tm.set_pid_and_epoch(1, 0)
        tp = TopicPartition("t", 0)
        for round_ in (1, 2):
            tm.begin_transaction()
            if round_ == 2:
                if tm.txn_partitions or not tm.is_empty_transaction():
                    bad.append("%s: the next transaction starts with %r / group %r registered" % (how, set(tm.txn_partitions), tm._txn_consumer_groups))
            tm.maybe_add_partition_to_txn(tp); tm.partition_added(tp)
            if tm.sequence_number(tp) != 3 * (round_ - 1):
                bad.append("%s: transaction %d starts partition %s at sequence %d, the producer's last batch ended at %d" % (how, round_, tp, tm.sequence_number(tp), 3 * (round_ - 1) - 1))
            tm.increment_sequence_number(tp, 3)
            fut = tm.add_offsets_to_txn({tp: OffsetAndMetadata(5, "")}, "g")
            if tm.consumer_group_to_add() != "g":
                bad.append("%s, transaction %d: the group is not registered with the coordinator again (AddOffsetsToTxn skipped)" % (how, round_))
            tm.consumer_group_added("g")
            tm.offset_committed(tp, 5, "g")
            tm.committing_transaction() if how == "commit" else tm.aborting_transaction()
            tm.complete_transaction()
            if tm.state != TransactionState.READY or tm.abortable_error() is not None:
                bad.append("%s: not READY after the transaction ended" % how)
    return bad
bad = asyncio.run(main())
VIOLATED = bool(bad)
DETAIL = "after complete_transaction(): %r" % (bad[:3],) if bad else "ok"
'''


@contract(MOD + ":TransactionManager.error_transaction", ["C16", "C07"])
def _(c):
    c.self_("TransactionManager")
    c.param("exc", EXC)
    inv(c)
    # internal: called by the transactional request handlers, i.e. while a transaction is open or
    # (orphaned handler) after the sender died with a fatal error
    c.requires("self.state == TransactionState.IN_TRANSACTION or self.state == TransactionState.COMMITTING_TRANSACTION"
               " or self.state == TransactionState.ABORTING_TRANSACTION or self.state == TransactionState.FATAL_ERROR",
               "called-by-a-transactional-handler")
    c.requires("self._transaction_waiter is not None and (self.state == TransactionState.FATAL_ERROR"
               " or not self._transaction_waiter.done())", "a-transaction-is-open")
    c.modifies("self.state", "self._txn_partitions", "self._txn_consumer_groups", "self._pending_txn_partitions",
               "self._pending_txn_offsets", "self._abortable_error", "Future.state", "Future.nres", "Future.exc")
    c.loop(0, header="for _, _, fut in self._pending_txn_offsets", invariants=[
        ("done-prefix", "forall(lambda j: implies(0 <= j < $i, self._pending_txn_offsets[j][2].done()))"),
        ("pending-suffix", "forall(lambda j: implies($i <= j < len(self._pending_txn_offsets),"
                           " not self._pending_txn_offsets[j][2].done()))"),
        ("list-unchanged", "self._pending_txn_offsets == old(self._pending_txn_offsets)"),
        ("waiter-still-pending", "not self._transaction_waiter.done()"),
        ("fields", "unchanged(self, '_transaction_waiter', '_pending_txn_offsets', '_task_waiter', '_pid_waiter')"),
    ])
    c.raises("after-fatal", "AssertionError", when="self.state == TransactionState.FATAL_ERROR",
             ensures=[("no-effect", "unchanged(self)"), ("futures-untouched", "same_heap('Future')")], exact=True)
    c.ensures("abortable", "self.state == TransactionState.ABORTABLE_ERROR")
    # the sender fails what was never handed to a broker with this error until the transaction is ended, in whatever
    # state the manager is by then (abort_transaction may already have moved it to ABORTING)
    c.ensures("the-error-stays-with-the-transaction", "self._abortable_error == exc")
    c.ensures("commit-will-raise", "self._transaction_waiter.done() and self._transaction_waiter.exception() == exc")
    c.ensures("pending-offsets-failed", "len(self._pending_txn_offsets) == 0 and forall(lambda j: implies("
              "0 <= j < len(old(self._pending_txn_offsets)), old(self._pending_txn_offsets)[j][2].done()))")
    # C07 "a read-committed reader sees ... none of a transaction that was aborted" / C16 "abort returns the producer to
    # a state in which a new transaction succeeds": the abort that follows an abortable error has to send EndTxn(ABORT)
    # whenever the coordinator has registered anything for this transaction - whether EndTxn is sent is decided from
    # _txn_partitions / _txn_consumer_groups (is_empty_transaction), so what the coordinator acknowledged must not be
    # forgotten before the transaction is ended (complete_transaction forgets it then)
    c.ensures("what-the-coordinator-registered-is-remembered-until-the-transaction-is-ended",
              "self._txn_partitions == old(self._txn_partitions) and self._txn_consumer_groups == old(self._txn_consumer_groups)")

    @c.replay
    def replay(model, ob=None):
        return {"script": _ERROR_TXN_SCRIPT}


_ERROR_TXN_SCRIPT = '''
import asyncio, logging
logging.disable(logging.CRITICAL)
from aiokafka.producer.transaction_manager import TransactionManager, TransactionState
from aiokafka.structs import TopicPartition, OffsetAndMetadata
from aiokafka import errors as Errors

async def main():
    bad = []
    p0, p1 = TopicPartition("t", 0), TopicPartition("denied", 0)
    for with_group in (False, True):
        tm = TransactionManager("tid", 1000)
        tm.set_pid_and_epoch(1, 0)
        tm.begin_transaction()
        tm.maybe_add_partition_to_txn(p0)
        tm.partition_added(p0)                      # the coordinator acknowledged p0; records may have been written to it
        if with_group:
            fut = tm.add_offsets_to_txn({p0: OffsetAndMetadata(5, "")}, "g")
            tm.consumer_group_added("g")
        tm.maybe_add_partition_to_txn(p1)
        tm.error_transaction(Errors.TopicAuthorizationFailedError("denied"))      # AddPartitionsToTxn refused p1
        tm.aborting_transaction()                   # the application aborts
        if tm.is_empty_transaction():
            bad.append("after an abortable error the manager calls the transaction empty although the coordinator has "
                       "registered %s for it: the abort completes without EndTxn(ABORT), the transaction stays open on the "
                       "coordinator and the next transaction's commit publishes the aborted records"
                       % ("partition t-0 and group g" if with_group else "partition t-0"))
        for f in [tm._transaction_waiter] + ([fut] if with_group else []):
            if f.done() and not f.cancelled():
                f.exception()
    return bad
bad = asyncio.run(main())
VIOLATED = bool(bad); DETAIL = repr(bad)
'''


@contract(MOD + ":TransactionManager.fatal_error", "C16")
def _(c):
    c.self_("TransactionManager")
    c.param("exc", EXC)
    for lbl, e in INVS[:2] + INVS[4:]:
        c.requires(e, "inv:" + lbl)
    c.requires("self._transaction_waiter is not None", "a-waiter-exists")
    c.modifies("self.state", "self._txn_partitions", "self._txn_consumer_groups", "self._pending_txn_partitions",
               "self._pending_txn_offsets", "self._transaction_waiter", "Future.state", "Future.nres", "Future.exc")
    c.loop(0, header="for _, _, fut in self._pending_txn_offsets", invariants=[
        ("done-prefix", "forall(lambda j: implies(0 <= j < $i, self._pending_txn_offsets[j][2].done()))"),
        ("pending-suffix", "forall(lambda j: implies($i <= j < len(self._pending_txn_offsets),"
                           " not self._pending_txn_offsets[j][2].done()))"),
        ("list-unchanged", "self._pending_txn_offsets == old(self._pending_txn_offsets)"),
        ("waiter-unchanged", "self._transaction_waiter == old(self._transaction_waiter)"
                             " and self._transaction_waiter.done() == old(self._transaction_waiter.done())"),
    ])
    c.ensures("fatal", "self.state == TransactionState.FATAL_ERROR")
    c.ensures("waiter-failed", "self._transaction_waiter.done() and self._transaction_waiter.exception() == exc")
    c.ensures("pending-offsets-failed", "len(self._pending_txn_offsets) == 0 and forall(lambda j: implies("
              "0 <= j < len(old(self._pending_txn_offsets)), old(self._pending_txn_offsets)[j][2].done()))")
    c.ensures("nothing-pending", "is_empty(self._pending_txn_partitions) and is_empty(self._txn_partitions)")


@contract(MOD + ":TransactionManager.maybe_add_partition_to_txn", ["C16", "C07"])
def _(c):
    c.self_("TransactionManager")
    c.param("tp", TP)
    c.modifies("self._pending_txn_partitions", "self._task_waiter.state", "self._task_waiter.nres")
    c.raises("outside-transaction", "AssertionError",
             when="self.transactional_id is not None and self.state != TransactionState.IN_TRANSACTION",
             ensures=[("no-effect", "unchanged(self)"), ("futures-untouched", "same_heap('Future')")], exact=True)
    c.ensures("registered-or-pending", "implies(self.transactional_id is not None,"
              " tp in self._txn_partitions or tp in self._pending_txn_partitions)")
    c.ensures("only-tp-added", "forall(TP, lambda q: implies(q != tp, (q in self._pending_txn_partitions)"
              " == (q in old(self._pending_txn_partitions))))")
    c.ensures("acknowledged-set-untouched", "self._txn_partitions == old(self._txn_partitions)")
    c.ensures("non-transactional-noop", "implies(self.transactional_id is None, unchanged(self))")


@contract(MOD + ":TransactionManager.partition_added", "C07")
def _(c):
    c.self_("TransactionManager")
    c.param("tp", TP)
    c.modifies("self._pending_txn_partitions", "self._txn_partitions")
    c.raises("not-pending", "KeyError", when="tp not in self._pending_txn_partitions",
             ensures=[("no-effect", "unchanged(self)")], exact=True)
    c.ensures("moved", "tp in self._txn_partitions and tp not in self._pending_txn_partitions")
    c.ensures("others-untouched", "forall(TP, lambda q: implies(q != tp,"
              " (q in self._pending_txn_partitions) == (q in old(self._pending_txn_partitions))"
              " and (q in self._txn_partitions) == (q in old(self._txn_partitions))))")


@contract(MOD + ":TransactionManager.partitions_to_add", "C07")
def _(c):
    c.self_("TransactionManager")
    c.returns(Set(TP))
    c.ensures("def", "result == self._pending_txn_partitions")


@contract(MOD + ":TransactionManager.consumer_group_added", "C07")
def _(c):
    c.self_("TransactionManager")
    c.param("group_id", STR)
    c.modifies("self._txn_consumer_groups")
    c.ensures("added", "self._txn_consumer_groups == set_with(old(self._txn_consumer_groups), group_id)")


@contract(MOD + ":TransactionManager.add_offsets_to_txn", ["C16", "C07"])
def _(c):
    c.self_("TransactionManager")
    c.param("offsets", OFFS)
    c.param("group_id", STR)
    c.returns(Fut(NONE))
    c.modifies("self._pending_txn_offsets", "self._task_waiter.state", "self._task_waiter.nres")
    c.raises("outside-transaction", "AssertionError",
             when="self.state != TransactionState.IN_TRANSACTION or not truthy_str(self.transactional_id)",
             ensures=[("no-effect", "unchanged(self)"), ("futures-untouched", "same_heap('Future')")], exact=True)
    c.ensures("queued-last", "len(self._pending_txn_offsets) == len(old(self._pending_txn_offsets)) + 1"
              " and self._pending_txn_offsets[len(self._pending_txn_offsets) - 1] == (group_id, offsets, result)")
    c.ensures("prefix-kept", "forall(lambda j: implies(0 <= j < len(old(self._pending_txn_offsets)),"
              " self._pending_txn_offsets[j] == old(self._pending_txn_offsets)[j]))")
    c.ensures("fresh-pending-future", "fresh(result) and not result.done()")


# ============================================================================ idempotence part
@contract(MOD + ":TransactionManager.has_pid", ["C01", "C16"])
def _(c):
    c.self_("TransactionManager")
    c.returns(BOOL)
    c.ensures("def", "result == (self._pid_and_epoch[0] != -1)")


@contract(MOD + ":TransactionManager.sequence_number", "C01")
def _(c):
    c.self_("TransactionManager")
    c.param("tp", TP)
    c.returns(INT)
    c.modifies("self._sequence_numbers")
    c.ensures("value", "result == seq_of(old(self._sequence_numbers), tp)")
    c.ensures("no-counter-changes", "forall(TP, lambda q: seq_of(self._sequence_numbers, q) == seq_of(old(self._sequence_numbers), q))")


@contract(MOD + ":TransactionManager.increment_sequence_number", "C01")
def _(c):
    c.self_("TransactionManager")
    c.param("tp", TP)
    c.param("increment", INT)
    c.modifies("self._sequence_numbers")
    c.requires("0 <= seq_of(self._sequence_numbers, tp) <= 2**31 - 1", "sequence-in-range")
    c.requires("0 <= increment <= 2**31 - 1", "record-count-is-int32")
    # Kafka DefaultRecordBatch.incrementSequence (DESIGN.md Appendix C.3)
    c.ensures("kafka-wrap-rule", "seq_of(self._sequence_numbers, tp) == ite(old(seq_of(self._sequence_numbers, tp)) <= 2**31 - 1 - increment,"
              " old(seq_of(self._sequence_numbers, tp)) + increment,"
              " increment - (2**31 - 1 - old(seq_of(self._sequence_numbers, tp))) - 1)")
    c.ensures("stays-in-range", "0 <= seq_of(self._sequence_numbers, tp) <= 2**31 - 1")
    c.ensures("other-partitions-untouched", "forall(TP, lambda q: implies(q != tp,"
              " seq_of(self._sequence_numbers, q) == seq_of(old(self._sequence_numbers), q)))")

    @c.replay
    def replay(model, ob=None):
        return {"script": _SEQ_SCRIPT}


_SEQ_SCRIPT = '''
from aiokafka.producer.transaction_manager import TransactionManager
from aiokafka.structs import TopicPartition
import asyncio
def kafka_inc(seq, n):
    return seq + n if seq <= 2**31 - 1 - n else n - (2**31 - 1 - seq) - 1
async def main():
    bad = None
    cands = [(2**31 - 1, 1), (2**31 - 1, 2**31 - 1), (2**31 - 5, 10), (0, 2**31 - 1), (1, 2**31 - 1), (5, 7), (2**31 - 2, 1)]
    for seq, n in cands:
        tm = TransactionManager(None, 1000)
        tp, other = TopicPartition("t", 0), TopicPartition("t", 1)
        tm._sequence_numbers[tp] = seq
        tm._sequence_numbers[other] = 3
        tm.increment_sequence_number(tp, n)
        got = tm.sequence_number(tp)
        if got != kafka_inc(seq, n) or not (0 <= got <= 2**31 - 1) or tm.sequence_number(other) != 3:
            bad = (seq, n, got, kafka_inc(seq, n)); break
    return bad
bad = asyncio.run(main())
VIOLATED = bad is not None
DETAIL = "sequence %r + %r -> %r, Kafka's wrap rule gives %r" % bad if bad else "in range on all candidates"
'''


@specfn("seq_of")
def seq_of(ex, st, d, tp):
    """value of a defaultdict(int) at a key (0 when absent)."""
    import z3
    from pyvc import ty as T
    return V(INT, z3.If(z3.Select(T.dict_dom(d), tp.t), z3.Select(T.dict_val(d), tp.t), T.intval(0).t))


@specfn("is_empty")
def is_empty(ex, st, s):
    import z3
    from pyvc.ty import Set as S_, Dict as D_
    from pyvc import ty as T
    if isinstance(s.ty, S_):
        return V(BOOL, s.t == z3.K(s.ty.elem.sort(), False))
    if isinstance(s.ty, D_):
        return V(BOOL, T.dict_dom(s) == z3.K(s.ty.k.sort(), False))
    return V(BOOL, T.list_len(s) == T.intval(0).t)


@specfn("truthy_str")
def truthy_str(ex, st, s):
    return V(BOOL, ex.truthy(st, s))


@specfn("nalloc")
def nalloc(ex, st):
    import z3
    return V(INT, st.nalloc)


@specfn("allocated")
def allocated(ex, st, r):
    """r denotes an object that exists in this state (heap well-formedness of container contents)."""
    import z3
    return V(BOOL, z3.And(r.t > 0, r.t < st.nalloc))


@specfn("fut_same")
def fut_same(ex, st, r):
    """Future r has the same state/result as at entry."""
    import z3
    base = ex.spec_old if ex.spec_old is not None else ex.entry
    cs = []
    for f in ("state", "nres", "exc"):
        cs.append(z3.Select(ex.hmap(st, "Future", f), r.t) == z3.Select(ex.hmap(base, "Future", f), r.t))
    return V(BOOL, z3.And(cs))
