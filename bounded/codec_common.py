"""Shared by bounded/C09.py and bounded/C10.py: builds record batches with both codec implementations (the compiled
one rebuilt from the tree's .pyx sources by tools/cext.py) and decodes them with both."""
import os
import struct
import sys

HERE = os.path.dirname(os.path.dirname(os.path.abspath(__file__)))


def use_fresh_extensions():
    sys.path.insert(0, os.path.join(HERE, "tools"))
    import cext
    d = cext.ensure(os.environ.get("PYVC_REPO", "/repo"))
    sys.path.insert(0, d)
    return d


def impls():
    from aiokafka.record import default_records as dr, legacy_records as lr, memory_records as mr
    from aiokafka.record._crecords import (DefaultRecordBatch as DC, DefaultRecordBatchBuilder as DBC, LegacyRecordBatch as LC,
                                           LegacyRecordBatchBuilder as LBC, MemoryRecords as MC)
    # _MemoryRecordsPy instantiates the module-level names LegacyRecordBatch / DefaultRecordBatch, which are the COMPILED
    # classes whenever the extensions can be imported: the pure-Python splitter would then be paired with the compiled
    # batch decoders and the pure-Python batch decoders would never run (this stand-in did exactly that until round 6).
    # Bind them the way AIOKAFKA_NO_EXTENSIONS does; the compiled MemoryRecords has its own cimported classes.
    mr.LegacyRecordBatch = lr._LegacyRecordBatchPy
    mr.DefaultRecordBatch = dr._DefaultRecordBatchPy
    return {
        "py": {"v2": dr._DefaultRecordBatchPy, "v2b": dr._DefaultRecordBatchBuilderPy, "v01": lr._LegacyRecordBatchPy,
               "v01b": lr._LegacyRecordBatchBuilderPy, "mem": mr._MemoryRecordsPy},
        "c": {"v2": DC, "v2b": DBC, "v01": LC, "v01b": LBC, "mem": MC},
    }


def codecs_available():
    from aiokafka import codec
    out = [0]
    for c, f in ((1, codec.has_gzip), (2, codec.has_snappy), (3, codec.has_lz4), (4, codec.has_zstd)):
        try:
            if f():
                out.append(c)
        except Exception:
            pass
    return out


def build(impl, magic, codec, records, **kw):
    """records: [(timestamp, key, value, headers)] -> bytes, or None when the builder refuses the combination"""
    I = impls()[impl]
    if magic == 2:
        b = I["v2b"](magic=2, compression_type=codec, is_transactional=kw.get("transactional", 0), producer_id=kw.get("pid", -1),
                     producer_epoch=kw.get("epoch", -1), base_sequence=kw.get("seq", -1), batch_size=kw.get("batch_size", 1 << 22))
        for i, (ts, k, v, h) in enumerate(records):
            if b.append(i, ts, k, v, h) is None:
                return None
    else:
        b = I["v01b"](magic=magic, compression_type=codec, batch_size=kw.get("batch_size", 1 << 22))
        for i, (ts, k, v, h) in enumerate(records):
            if b.append(i, timestamp=ts, key=k, value=v, headers=[]) is None:
                return None
    return bytes(b.build())


def decode(impl, data, validate=False):
    """-> ('ok', [(offset, timestamp, key, value, headers)], crc_flags) or ('exc', exception class name).
    SystemError / MemoryError propagate."""
    I = impls()[impl]
    out, crcs = [], []
    try:
        m = I["mem"](bytes(data))
        while True:
            announced = bool(m.has_next())
            b = m.next_batch()
            if announced != (b is not None):
                # has_next() is how the fetcher decides whether a response holds a record at all
                return ("exc", "has_next() said %s but next_batch() returned %s" % (announced, "None" if b is None else "a batch"),
                        out, crcs)
            if b is None:
                break
            if validate:
                crcs.append(bool(b.validate_crc()))
            for r in b:
                out.append((r.offset, r.timestamp, r.key, r.value, [(k, v) for k, v in r.headers]))
    except (SystemError, MemoryError, TimeoutError):
        raise               # TimeoutError: the caller's SIGALRM handler (a decode that does not terminate)
    except Exception as e:
        return ("exc", type(e).__name__, out, crcs)
    return ("ok", out, crcs)


def record_sets():
    """small but boundary-heavy record sequences (timestamps non-negative)"""
    big = b"x" * 8192
    sets = [
        [(1000, None, None, [])],
        [(1000, b"", b"", [])],
        [(0, b"k", b"v", []), (5, None, b"v2", []), (5, b"k3", None, [])],
        [(2 ** 40, b"k" * 63, b"v" * 64, []), (2 ** 40 - 7, b"k" * 8191, big, [])],                  # varint length boundaries, decreasing ts
        [(1, b"a", b"b", [("h", b"1"), ("hé", None), ("", b"")])],                              # headers: null value, non-ASCII key
        [(10, b"k%d" % i, b"v" * i, []) for i in range(12)],
        [(2 ** 33 * i, b"k", b"v", []) for i in range(3)],                                           # timestamp deltas beyond int32
    ]
    return sets
