"""C05 — bounded stand-in beside the proofs (never counted as proved). The proofs cover what a member does with the
assignment it is *sent* (adoption, revocation order, staleness checks). The first sentence of the statement also speaks of
what is *distributed*: "pairwise disjoint, containing only partitions of topics the member subscribed to" - that is the
leader's assignor. The three real assignors are run over the validity half of C14's box (3..4 members x 3 topics x 0..2
partitions x every non-empty subscription): every distributed assignment must be valid."""
import argparse
import json
import logging
logging.disable(logging.CRITICAL)
import multiprocessing as mp

from bounded.assign_common import assignors, run, check_valid, box


def emit(d):
    print("BOUNDED " + json.dumps(d, default=str))


def _chunk(args):
    name, cases = args
    A = assignors()[name]
    n, fails = 0, []
    for parts, subs in cases:
        n += 1
        try:
            errs = check_valid(parts, subs, run(A, parts, subs))
        except Exception as e:
            errs = ["raised %s: %s" % (type(e).__name__, e)]
        if errs and len(fails) < 5:
            fails.append({"assignor": name, "partitions": parts, "subscriptions": subs, "errors": errs[:3]})
    return n, fails


def sweep(max_members, max_parts, jobs=16):
    cases = [c for c in box(max_members, ["ta", "tb", "tc"], max_parts, include_no_metadata=False) if len(c[1]) >= 2]
    n, fails = 0, []
    with mp.Pool(jobs) as pool:
        for name in ("range", "roundrobin", "sticky"):
            step = max(1, len(cases) // (jobs * 2))
            for a, f in pool.imap_unordered(_chunk, [(name, cases[i:i + step]) for i in range(0, len(cases), step)]):
                n += a
                fails.extend(f)
    return n, fails[:10]


def adoption_sweep():
    """'the assignments members adopt are exactly the ones distributed for that generation': what a member adopts is what
    ConsumerProtocolMemberAssignment.partitions() reads out of the SyncGroup bytes. Every list of up to 3 entries over the
    topics t, u with partition lists out of [], [0], [2, 1], [0, 3] - a topic may be listed in several entries, in any order
    (a custom assignor, a leader running another client library) - encoded, decoded, read: exactly the pairs that were
    distributed, each once."""
    import itertools
    from aiokafka.coordinator.protocol import ConsumerProtocolMemberAssignment as A
    from aiokafka.structs import TopicPartition
    n, fails = 0, []
    plists = ([], [0], [2, 1], [0, 3])
    entries = [(t, ps) for t in ("t", "u") for ps in plists]
    for k in (1, 2, 3):
        for combo in itertools.product(entries, repeat=k):
            sent = [TopicPartition(t, p) for t, ps in combo for p in ps]
            if len(set(sent)) != len(sent):
                continue                                   # a leader does not give a partition twice
            n += 1
            raw = A(0, [(t, list(ps)) for t, ps in combo], b"").encode()
            got = A.decode(raw).partitions()
            if sorted(got) != sorted(sent):
                fails.append({"distributed_entries": [(t, list(ps)) for t, ps in combo], "adopted": sorted(tuple(x) for x in got)})
                if len(fails) >= 10:
                    return n, fails
    return n, fails


def main():
    ap = argparse.ArgumentParser()
    ap.add_argument("--tier", default="quick")
    ap.add_argument("--seed", type=int, default=0)
    a = ap.parse_args()
    mm, mp_ = (3, 2) if a.tier == "quick" else (4, 3)
    n, fails = sweep(mm, mp_)
    emit({"name": "distributed-assignments-are-valid", "exhaustive": True, "cases": n, "distinct_nontrivial": n,
          "bound": "range, round-robin and sticky assignor over 2..%d members x 3 topics x 0..%d partitions x every multiset of "
                   "non-empty subscriptions: pairwise disjoint, subscribed topics only, every partition of a subscribed topic "
                   "assigned" % (mm, mp_),
          "failures": fails, "replay": {"script": REPLAY}})
    n, fails = adoption_sweep()
    emit({"name": "adopted-is-what-was-distributed", "exhaustive": True, "cases": n, "distinct_nontrivial": n,
          "bound": "every list of <= 3 assignment entries over topics t, u x partition lists [], [0], [2, 1], [0, 3] (a topic may be "
                   "listed in several entries, any order), through ConsumerProtocolMemberAssignment encode / decode / partitions()",
          "failures": fails, "replay": {"script": REPLAY_ADOPT}})


REPLAY_ADOPT = '''
import sys
sys.path.insert(0, "/verif")
from bounded import C05
n, fails = C05.adoption_sweep()
VIOLATED = bool(fails); DETAIL = "%d assignments, adopted differs from distributed: %r" % (n, fails[:1])
'''


REPLAY = '''
import sys
sys.path.insert(0, "/verif")
from bounded import C05
n, fails = C05.sweep(3, 2, jobs=8)
VIOLATED = bool(fails); DETAIL = "%d groups, invalid distributed assignment: %r" % (n, fails[:1])
'''

if __name__ == "__main__":
    main()
