"""Replay scenario for C06 (run under /venv/bin/python against the real CoordinatorGroupRebalance): an in-memory
group coordinator records every group request of one rejoin and answers per script. No broker, no network.

check(n_assignors, member_id_required, leader) -> list of problems found in the request trace."""
import asyncio
import logging

logging.disable(logging.CRITICAL)


class FakeCoordinator:
    """what CoordinatorGroupRebalance needs from GroupCoordinator"""
    def __init__(self, script):
        from aiokafka.protocol.commit import OffsetCommitRequest
        from aiokafka.protocol.group import JoinGroupRequest
        self.generation = OffsetCommitRequest.DEFAULT_GENERATION_ID
        self.member_id = JoinGroupRequest.UNKNOWN_MEMBER_ID
        self._group_instance_id = None
        self._rebalance_timeout_ms = 30000
        self._rejoin_needed_fut = asyncio.get_running_loop().create_future()
        self.sent = []
        self.advertised = []
        self.script = list(script)
        self.rejoin_requests_during_sync = 0
        self.on_sync_in_flight = None

    def request_rejoin(self):
        if not self._rejoin_needed_fut.done():
            self._rejoin_needed_fut.set_result(None)

    def reset_generation(self):
        self.generation, self.member_id = -1, ""
        self.request_rejoin()

    def coordinator_dead(self):
        pass

    async def _perform_assignment(self, response):
        return {m[0]: b"assignment-of-" + m[0].encode() for m in response.members}

    async def _send_req(self, request):
        self.sent.append(request)
        # what goes on the wire is the request as it is *now* (the protocol list object is shared with the caller)
        self.advertised.append([p[0] for p in getattr(request, "_group_protocols", [])])
        await asyncio.sleep(0)
        kind = type(request).__name__
        if kind.startswith("SyncGroup"):
            if self.on_sync_in_flight:
                self.on_sync_in_flight(self)
            return self.sync_reply(request)
        return self.script.pop(0)(request)


class Subscription:
    active = True
    topics = {"t"}


def check(n_assignors=2, member_id_required=False, leader=False, rejoin_during_sync=False, sync_error=0):
    from types import SimpleNamespace as NS
    from aiokafka.consumer.group_coordinator import CoordinatorGroupRebalance
    from aiokafka.coordinator.assignors.range import RangePartitionAssignor
    from aiokafka.coordinator.assignors.roundrobin import RoundRobinPartitionAssignor
    from aiokafka.coordinator.assignors.sticky.sticky_assignor import StickyPartitionAssignor
    assignors = [RangePartitionAssignor, RoundRobinPartitionAssignor, StickyPartitionAssignor][:n_assignors]

    def join_reply(code, member="m-1", gen=7):
        def f(req):
            return NS(error_code=code, member_id=member, generation_id=gen, group_protocol=assignors[0].name,
                      leader_id=(member if leader else "someone-else"), members=[(member, b"")], API_VERSION=2)
        return f

    def sync_reply(req):
        return NS(error_code=sync_error, member_assignment=b"assignment")

    async def run():
        script = []
        if member_id_required:
            script.append(join_reply(79, member="m-1"))          # MEMBER_ID_REQUIRED: retry with the id given
        script += [join_reply(0)] * 4                           # spare grants: a wrong client may ask again
        coord = FakeCoordinator(script)
        coord.sync_reply = sync_reply
        if rejoin_during_sync:
            coord.on_sync_in_flight = lambda c: c.request_rejoin()
        rb = CoordinatorGroupRebalance(coord, "g", 0, Subscription(), assignors, 10000, 100)
        try:
            res = await rb.perform_group_join()
        except Exception as e:
            if not sync_error:
                raise
            res = e                       # a fatal group error (e.g. authorization) goes to the caller
        return coord, res

    coord, res = asyncio.run(run())
    problems = []
    if sync_error:
        # the sync failed: whatever the code - also one that only means "look the coordinator up again" - a rejoin is pending
        # afterwards (a member that re-joined holds its old assignment: need_rejoin() is false without the trigger, its
        # heartbeat task is stopped, nothing would ever make it join again)
        if res is None and not coord._rejoin_needed_fut.done():
            problems.append("SyncGroup answered with error %d: the join attempt failed and no rejoin is pending" % sync_error)
        return problems, [type(r).__name__ for r in coord.sent]
    kinds = [type(r).__name__ for r in coord.sent]
    names = [a.name for a in assignors]
    granted = False
    for i, r in enumerate(coord.sent):
        k = type(r).__name__
        if k.startswith("JoinGroup"):
            adv = coord.advertised[i]
            if adv != names:
                problems.append("JoinGroup #%d advertises %r, configured strategies are %r" % (i, adv, names))
            if granted:
                problems.append("JoinGroup #%d sent after a JoinGroup reply with NoError (trace %r)" % (i, kinds))
            first = not any(t.startswith("JoinGroup") for t in kinds[:i])
            mid = getattr(r, "_member_id", None)
            if member_id_required and not first and mid != "m-1":
                problems.append("JoinGroup #%d after MEMBER_ID_REQUIRED carries member id %r, the broker handed out 'm-1'" % (i, mid))
            expects_grant = not (member_id_required and not any(t.startswith("JoinGroup") for t in kinds[:i]))
            granted = granted or expects_grant
        elif k.startswith("SyncGroup"):
            if not granted:
                problems.append("SyncGroup before any granted JoinGroup")
            gen = getattr(r, "_generation_id", getattr(r, "generation_id", None))
            mem = getattr(r, "_member_id", getattr(r, "member_id", None))
            if (gen, mem) != (7, "m-1"):
                problems.append("SyncGroup carries (generation, member) = %r, the join reply assigned (7, 'm-1')" % ((gen, mem),))
            granted = False
    if not any(k.startswith("SyncGroup") for k in kinds):
        problems.append("no SyncGroup followed the granted JoinGroup (trace %r)" % kinds)
    if rejoin_during_sync and not coord._rejoin_needed_fut.done():
        problems.append("request_rejoin() issued while the SyncGroup was in flight was lost: the rejoin trigger is pending again after the sync")
    return problems, kinds


def sweep():
    bad = []
    for n in (1, 2, 3):
        for mir in (False, True):
            for leader in (False, True):
                for rds in (False, True):
                    problems, kinds = check(n, mir, leader, rds)
                    for p in problems:
                        bad.append("assignors=%d member_id_required=%s leader=%s rejoin_during_sync=%s: %s" % (n, mir, leader, rds, p))
    # REBALANCE_IN_PROGRESS, UNKNOWN_MEMBER_ID, ILLEGAL_GENERATION, COORDINATOR_NOT_AVAILABLE, NOT_COORDINATOR,
    # COORDINATOR_LOAD_IN_PROGRESS, GROUP_AUTHORIZATION_FAILED, an error the function does not name
    for code in (27, 25, 22, 15, 16, 14, 30, 2):
        for leader in (False, True):
            problems, kinds = check(1, False, leader, False, sync_error=code)
            for p in problems:
                bad.append("leader=%s: %s" % (leader, p))
    return bad


if __name__ == "__main__":
    for b in sweep():
        print(b)
