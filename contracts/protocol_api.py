"""C11 — aiokafka/protocol/api.py: version negotiation (Request.prepare)."""
from pyvc.contract import contract, classmodel, specfn, SPEC_TYPES
from pyvc.ty import V, INT, BOOL, STR, NONE, EXC, BYTES, Opt, Tup, List, Set, Dict, Ref

MOD = "aiokafka.protocol.api"

# a request-struct *class* (ProduceRequest_v3, ...): only its version attribute matters here
classmodel("ReqClass", {"API_VERSION": INT, "API_KEY": INT})
classmodel("ReqStruct", {"g_class": Ref("ReqClass")})          # ghost: the class build() instantiated
classmodel("Request", {
    "API_KEY": INT,
    "ALLOW_UNKNOWN_API_VERSION": BOOL,
    "_CLASSES": List(Ref("ReqClass")),
})

IN_RANGE = "versions[self.API_KEY][0] <= {0}.API_VERSION <= versions[self.API_KEY][1]"


@contract(MOD + ":Request.prepare", "C11")
def _(c):
    c.self_("Request")
    c.param("versions", Dict(INT, Tup(INT, INT)))
    c.returns(Ref("ReqStruct"))
    # class invariant of every Request subclass, established by an enumeration of all of them on each run
    # (bounded/C11.py: "_CLASSES is non-empty, sorted by API_VERSION, all of the request's API_KEY")
    c.requires("len(self._CLASSES) >= 1", "some-version-implemented")
    c.requires("forall(lambda j, k: implies(0 <= j <= k < len(self._CLASSES),"
               " self._CLASSES[j].API_VERSION <= self._CLASSES[k].API_VERSION))", "classes-sorted-by-version")
    c.call("self.build", returns=Ref("ReqStruct"), post=["result.g_class == a0", "fresh(result)"],
           note="build(cls) returns an instance of cls (each per-version builder is under its own contract)")
    c.loop(0, header="for req_class in reversed(self._CLASSES)", invariants=[
        ("newer-classes-out-of-range", "forall(lambda j: implies(len(self._CLASSES) - $i <= j < len(self._CLASSES),"
         " not (" + IN_RANGE.format("self._CLASSES[j]") + ")))"),
    ])
    c.raises("unknown-api-key", "IncompatibleBrokerVersion",
             when="self.API_KEY not in versions and not self.ALLOW_UNKNOWN_API_VERSION", exact=True)
    c.raises("no-common-version", "NotImplementedError",
             when="self.API_KEY in versions and forall(lambda j: implies(0 <= j < len(self._CLASSES),"
                  " not (" + IN_RANGE.format("self._CLASSES[j]") + ")))", exact=True)
    c.ensures("inside-the-brokers-range", "implies(self.API_KEY in versions, " + IN_RANGE.format("result.g_class") + ")")
    c.ensures("a-version-the-client-implements", "exists(lambda j: 0 <= j < len(self._CLASSES) and self._CLASSES[j] == result.g_class)")
    c.ensures("highest-common-version", "implies(self.API_KEY in versions, forall(lambda j: implies(0 <= j < len(self._CLASSES)"
              " and " + IN_RANGE.format("self._CLASSES[j]") + ", self._CLASSES[j].API_VERSION <= result.g_class.API_VERSION)))")
    c.ensures("unknown-key-falls-back-to-oldest", "implies(self.API_KEY not in versions, result.g_class == self._CLASSES[0])")

    @c.replay
    def replay(model, ob=None):
        return {"script": _PREPARE_SCRIPT}


_PREPARE_SCRIPT = '''
import itertools, importlib, inspect
from aiokafka.protocol.api import Request
from aiokafka.errors import IncompatibleBrokerVersion
mods = ["produce", "fetch", "offset", "metadata", "commit", "group", "coordination", "transaction", "admin"]
bad = []
for m in mods:
    mod = importlib.import_module("aiokafka.protocol." + m)
    for name, cls in inspect.getmembers(mod, inspect.isclass):
        if not (issubclass(cls, Request) and cls is not Request and hasattr(cls, "_CLASSES")):
            continue
        vs = [k.API_VERSION for k in cls._CLASSES]
        req = object.__new__(cls)
        req.build = lambda k: k                     # the class prepare() chose
        for lo in range(0, max(vs) + 3):
            for hi in range(lo, max(vs) + 3):
                want = max([v for v in vs if lo <= v <= hi], default=None)
                try:
                    got = req.prepare({cls.API_KEY: (lo, hi)}).API_VERSION
                except NotImplementedError:
                    got = None
                if got != want:
                    bad.append((name, vs, (lo, hi), got, want))
VIOLATED = bool(bad)
DETAIL = "prepare() picks (request, implemented, broker range, chosen, highest common): %r" % (bad[:3],) if bad else "ok"
'''
