"""C06 — bounded stand-in beside the proofs (never counted as proved): an exhaustive enumeration over the repository's own
text. The proofs of the response handlers take Errors.for_code(code) as a function from codes to error classes read from
aiokafka/errors.py; the handlers compare its result with classes by identity. See bounded/errors_common.py."""
import argparse
import json

FILES = ["aiokafka/consumer/group_coordinator.py", "aiokafka/consumer/fetcher.py"]


def emit(d):
    print("BOUNDED " + json.dumps(d, default=str))


def sweep():
    from bounded import errors_common
    return errors_common.identity_comparisons(FILES)


def main():
    ap = argparse.ArgumentParser()
    ap.add_argument("--tier", default="quick")
    ap.add_argument("--seed", type=int, default=0)
    ap.parse_args()
    n, fails = sweep()
    emit({"name": "error-classes-compared-by-identity-are-what-for_code-returns", "exhaustive": True, "cases": n, "distinct_nontrivial": n,
          "bound": "every `is` / `is not` comparison with a broker error class in %s: Errors.for_code(<that class's errno>) is that class" % ", ".join(FILES),
          "failures": fails[:10], "replay": {"script": REPLAY}})


REPLAY = '''
import sys
sys.path.insert(0, "/verif")
from bounded import C06
n, fails = C06.sweep()
VIOLATED = bool(fails); DETAIL = "%d of %d error classes the handlers compare with are not what for_code() returns for their errno: %r" % (len(fails), n, fails[:3])
'''

if __name__ == "__main__":
    main()
