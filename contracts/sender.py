"""C01 / C02 / C07 / C16 — aiokafka/producer/sender.py."""
from pyvc.contract import contract, classmodel, specfn, SPEC_TYPES
from pyvc.ty import V, INT, BOOL, REAL, STR, NONE, EXC, BYTES, Opt, Tup, List, Set, Dict, Ref
from pyvc.exec_base import Fut
from .common import TP, tupctor
from .message_accumulator import BATCH, RM

MOD = "aiokafka.producer.sender"

classmodel("Client", {})
classmodel("Sender", {
    "client": Ref("Client"),
    "_txn_manager": Opt(Ref("TransactionManager")),
    "_acks": INT,
    "_message_accumulator": Ref("MessageAccumulator"),
    "_in_flight": Set(INT),
    "_muted_partitions": Set(TP),
    "_retry_backoff": REAL,
    "_request_timeout_ms": INT,
}, real=MOD + ":Sender")

classmodel("SendProduceReqHandler", {
    "_sender": Ref("Sender"),
    "_default_backoff": REAL,
    "_batches": Dict(TP, BATCH),
    "_client": Ref("Client"),
    "_to_reenqueue": List(BATCH),
}, real=MOD + ":SendProduceReqHandler")


@contract(MOD + ":SendProduceReqHandler._can_retry", ["C01", "C02"])
def _(c):
    c.self_("SendProduceReqHandler")
    c.param("error", EXC)
    c.param("batch", BATCH)
    c.returns(BOOL)
    # "with idempotence enabled, retriable faults alone never fail an accepted record": an idempotent
    # producer (any TransactionManager, transactional or not) never gives up on a retriable error
    c.ensures("idempotent-producer-retries-every-retriable-error",
              "implies(self._sender._txn_manager is not None, result == error.retriable)")
    c.ensures("only-retriable-errors-are-retried", "implies(result, error.retriable)")
    c.ensures("non-idempotent-retries-until-expiry", "implies(self._sender._txn_manager is None and not error.retriable, not result)")

    @c.replay
    def replay(model, ob=None):
        return {"script": _CAN_RETRY_SCRIPT}


_CAN_RETRY_SCRIPT = '''
import asyncio
from aiokafka import errors as E
from aiokafka.producer.sender import SendProduceReqHandler
from aiokafka.producer.transaction_manager import TransactionManager
class Batch:
    def __init__(self, exp): self._e = exp
    def expired(self): return self._e
class Snd:
    client = None; _retry_backoff = 0.1
async def main():
    bad = []
    for tid in (None, "txn-1"):                         # idempotent only / transactional
        s = Snd(); s._txn_manager = TransactionManager(tid, 1000)
        h = SendProduceReqHandler(s, {})
        for exp in (False, True):
            for err in (E.NotLeaderForPartitionError(), E.RequestTimedOutError(), E.LeaderNotAvailableError(),
                        E.UnknownTopicOrPartitionError(), E.NotEnoughReplicasError(), E.InvalidTopicError()):
                if bool(h._can_retry(err, Batch(exp))) != bool(err.retriable):
                    bad.append((tid, exp, type(err).__name__, h._can_retry(err, Batch(exp))))
    return bad
bad = asyncio.run(main())
VIOLATED = bool(bad)
DETAIL = "idempotent producer gives up on (transactional_id, expired, error, can_retry): %r" % (bad[:4],) if bad else "ok"
'''


# replay: the real handler over real ProduceResponse objects of every version, one batch per error code
_HANDLE_RESPONSE_SCRIPT = '''
import asyncio, logging
logging.disable(logging.CRITICAL)
from unittest import mock
from aiokafka import errors as E
from aiokafka.protocol import produce as P
from aiokafka.producer.sender import SendProduceReqHandler
from aiokafka.producer.transaction_manager import TransactionManager
from aiokafka.producer.message_accumulator import MessageBatch, BatchBuilder
from aiokafka.structs import TopicPartition
CODES = [0, 46, 3, 5, 6, 7, 19, 20, 56, 1, 10, 17, 18, 29, 45, 47, 48]
def part(version, index, code):
    if version < 2: return (index, code, 100 + index)
    if version < 5: return (index, code, 100 + index, -1)
    if version < 8: return (index, code, 100 + index, -1, 0)
    return (index, code, 100 + index, -1, 0, [], None)
async def main():
    bad = []
    for tid in (None, "idempotent", "txn-1"):
        for version in range(0, 9):
            cls = getattr(P, "ProduceResponse_v%d" % version, None)
            if cls is None: continue
            snd = mock.MagicMock()
            snd._txn_manager = None if tid is None else TransactionManager(None if tid == "idempotent" else tid, 1000)
            batches = {}
            for i, code in enumerate(CODES):
                b = BatchBuilder(1 << 16, 0, is_transactional=False)
                b.append(timestamp=None, key=None, value=b"v")
                batches[TopicPartition("t", i)] = MessageBatch(TopicPartition("t", i), b, 10 ** 6, 0)
            h = SendProduceReqHandler(snd, batches)
            parts = [part(version, i, code) for i, code in enumerate(CODES)]
            resp = cls([("t", parts)]) if version == 0 else cls([("t", parts)], 0)
            h.handle_response(resp)
            for i, code in enumerate(CODES):
                batch = batches[TopicPartition("t", i)]
                n = h._to_reenqueue.count(batch) + (1 if batch.future.done() else 0)
                if batch.future.done() and batch.future.exception() is not None: batch.future.exception()
                if n != 1:
                    bad.append((tid, version, code, E.for_code(code).__name__, "settled/queued %d times" % n))
    return bad
bad = asyncio.run(main())
VIOLATED = bool(bad)
DETAIL = "batches answered by a Produce response that were neither settled nor queued for a retry exactly once (producer kind, version, code, error, what): %r" % (bad[:4],) if bad else "ok"
'''


# ---- produce response decoding per API version (C02) ----------------------------------------
from .common import tp_ctor      # noqa: E402

RECERR = Tup(INT, Opt(STR))
# partition entry of a ProduceResponse, modelled at its maximal width (v8); the real tuple has
# produce_partition_arity(API_VERSION) components (Kafka protocol: v0-1 (index, error, base_offset),
# v2-4 + log_append_time, v5-7 + log_start_offset, v8 + record_errors, error_message)
PINFO = Tup(INT, INT, INT, INT, INT, List(RECERR), Opt(STR))
PINFO.flex_arity = "produce_partition_arity(response.API_VERSION)"
classmodel("ProduceResponse", {"API_VERSION": INT, "topics": List(Tup(STR, List(PINFO)))})


@specfn("produce_partition_arity")
def produce_partition_arity(ex, st, v):
    import z3
    from pyvc import ty as T
    i = lambda n: T.intval(n).t
    return V(INT, z3.If(v.t < i(2), i(3), z3.If(v.t <= i(4), i(4), z3.If(v.t <= i(7), i(5), i(7)))))


def _handle_response(c, fatal_clause=False):
    c.self_("SendProduceReqHandler")
    c.param("response", Ref("ProduceResponse"))
    c.bind("TopicPartition", tp_ctor)
    c.local("log_start_offset", Opt(INT))
    c.local("global_error", Opt(STR))
    c.requires("0 <= response.API_VERSION <= 8", "a-produce-version-the-client-implements")
    c.modifies("self._to_reenqueue", "Future.state", "Future.nres", "Future.res", "Future.exc")
    c.call("self._client.force_metadata_update", note="requests a metadata refresh; touches nothing modelled here")
    # C02 "exactly-once resolution", C01 "a retriable failure is retried": every batch the response answers is settled -
    # acknowledged, failed, or handed back for a retry - exactly once, none is dropped on the floor (its future would stay
    # pending for ever and the partition's later batches would overtake it)
    c.ghost("$open", INT, "0")
    c.hook("after", "self._batches.get", [("set", "$open", "$open + ite(result is not None, 1, 0)")])
    INV = [("response-fixed", "response.API_VERSION == old(response.API_VERSION) and response.topics == old(response.topics)"
            " and self._batches == old(self._batches) and self._sender == old(self._sender)"
            " and self._sender._txn_manager == old(self._sender._txn_manager)"),
           ("every-answered-batch-so-far-is-settled-or-queued-for-a-retry-exactly-once", "$open == 0")]
    c.ensures("every-answered-batch-is-settled-or-queued-for-a-retry-exactly-once", "$open == 0")
    c.replay_fn = lambda model, ob=None: {"script": _HANDLE_RESPONSE_SCRIPT}
    c.loop(0, header="for topic, partitions in response.topics", invariants=INV)
    c.loop(1, header="for partition_info in partitions", invariants=INV)
    # what reaches MessageBatch.done() are the fields the response schema of *that* version puts there
    c.hook("before", "batch.done", [
        ("assert", "base-offset-is-field-2", "a0 == partition_info[2]"),
        ("assert", "timestamp-from-v2-else-minus-1", "a1 == ite(response.API_VERSION < 2, -1, partition_info[3])"),
        ("assert", "log-start-offset-from-v5-else-none",
         "a2 == ite(response.API_VERSION >= 5, some_int(partition_info[4]), none_int())"),
        ("assert", "only-on-success-or-duplicate", "error == Errors.NoError or error == DuplicateSequenceNumber"),
        ("assert", "batch-of-that-partition", "tp.topic == topic and tp.partition == partition_info[0]"
         " and self._batches[tp] == batch"),
        ("set", "$open", "$open - 1"),
    ])
    c.hook("before", "batch.failure", [
        # C16 "after a fatal error (fencing, sequence violation, transactional-id authorization) every later transactional call
        # and every pending send fails and nothing more is written": when the partition leader reports one of them for a batch
        # of a transactional producer, failing that batch's futures is not enough. It is all the code does: a recorded finding
        # (known_findings.txt), proved to be confined to replies that carry one of the three codes
    ] + ([
        # reply_carries_a_fatal_code(response) is *defined* as "some partition entry of the reply has error code 45, 47 or 53"
        # (the region of the recorded finding); this is that definition unfolded at the entry the loop is looking at - written
        # out by hand because the solvers instantiate the quantified form erratically (17 s or 8 minutes for the same query)
        ("assume", "implies(not reply_carries_a_fatal_code(response),"
                   " partition_info[1] != 45 and partition_info[1] != 47 and partition_info[1] != 53)"),
        ("assert", "a-fatal-error-in-a-produce-reply-is-not-only-this-batchs-failure",
         "implies(self._sender._txn_manager is not None and self._sender._txn_manager.transactional_id is not None,"
         " error != InvalidProducerEpoch and error != OutOfOrderSequenceNumber and error != TransactionalIdAuthorizationFailed)"),
    ] if fatal_clause else []) + [
        ("assert", "idempotent-producer-never-fails-a-retriable-error",
         "implies(self._sender._txn_manager is not None, not error.retriable)"),
        ("set", "$open", "$open - 1"),
    ])
    c.hook("before", "self._to_reenqueue.append", [
        ("assert", "only-retriable-errors-are-retried", "error.retriable"),
        ("assert", "the-answered-batch-is-what-is-retried", "a0 == batch"),
        ("set", "$open", "$open - 1"),
    ])


contract(MOD + ":SendProduceReqHandler.handle_response", ["C02", "C01"])(lambda c: _handle_response(c))
# the same function for C16, with the one clause C16 adds (a recorded finding, see the comment at the clause)
contract(MOD + ":SendProduceReqHandler.handle_response", ["C16"], variant="fatal-errors")(lambda c: _handle_response(c, True))


@specfn("reply_carries_a_fatal_code")
def reply_carries_a_fatal_code(ex, st, resp):
    """some partition entry of the Produce reply carries INVALID_PRODUCER_EPOCH (47), OUT_OF_ORDER_SEQUENCE_NUMBER (45) or
    TRANSACTIONAL_ID_AUTHORIZATION_FAILED (53): an uninterpreted predicate of the reply object, unfolded by hand where used"""
    import z3
    f = z3.Function("reply_carries_a_fatal_code", resp.t.sort(), z3.BoolSort())
    return V(BOOL, f(resp.t))


@specfn("none_int")
def none_int(ex, st):
    from pyvc import ty as T
    return T.opt_none(Opt(INT))
