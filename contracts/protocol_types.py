"""C11 / C12 — aiokafka/protocol/types.py: the fixed-width integer decoders (Int8, Int16, Int32, UInt32, Int64 .decode).

C11 "decoding the encoding returns the original value" has a second half the connection relies on (C12 "a malformed frame
... closes the connection"): what is not an encoding is refused. Every length, array count and correlation id of a reply is
read through these five classmethods; each reads exactly its width from the stream, returns the big-endian value of those
bytes, and raises ValueError when the stream ends before - never a value made of the bytes that happened to be left.

Assumed, not proved (listed in the evidence): struct.Struct(fmt).unpack as wrapped by the module's _unpack helper - it
returns the big-endian value of a chunk of exactly struct.calcsize(fmt) bytes and raises ValueError for any other length
(the helper turns struct.error into ValueError); the width per class is read from the class's own `_unpack =
struct.Struct("<fmt>").unpack` line on every run and compared with the width named here. int.from_bytes is modelled as well
(big-endian value of however many bytes it is given) so that a decoder rewritten over it stays inside the verified subset."""
import ast
import struct

import z3

from pyvc import source
from pyvc import ty as T
from pyvc.contract import contract, classmodel, specfn
from pyvc.ty import V, INT, BOOL, BYTES, Ref

MOD = "aiokafka.protocol.types"
classmodel("BytesIO", {"buf": BYTES, "pos": INT})
WIDTHS = {"Int8": (1, True), "Int16": (2, True), "Int32": (4, True), "UInt32": (4, False), "Int64": (8, True)}


@specfn("be_val")
def be_val(ex, st, b, start, width, signed):
    """big-endian value of b[start : start + width]; width and signed are literals"""
    w = int(str(z3.simplify(width.t)))
    sg = z3.is_true(z3.simplify(signed.t))
    arr = T.list_arr(b)
    acc = T.intval(0).t
    for j in range(w):
        acc = acc * T.intval(256).t + ex.byte_to_int(z3.Select(arr, start.t + T.intval(j).t))
    if sg and w:
        acc = z3.If(acc >= T.intval(1 << (8 * w - 1)).t, acc - T.intval(1 << (8 * w)).t, acc)
    return V(INT, acc)


def declared_format(cls):
    """the struct format of the class's own `_unpack = struct.Struct("<fmt>").unpack` line, or None"""
    mod = source.module(MOD)
    for n in mod.tree.body:
        if isinstance(n, ast.ClassDef) and n.name == cls:
            for s in n.body:
                if isinstance(s, ast.Assign) and any(isinstance(t, ast.Name) and t.id == "_unpack" for t in s.targets):
                    v = s.value
                    if isinstance(v, ast.Attribute) and v.attr == "unpack" and isinstance(v.value, ast.Call) and v.value.args \
                            and isinstance(v.value.args[0], ast.Constant):
                        return v.value.args[0].value
    return None


def _mk(cls, width, signed):
    @contract(MOD + ":%s.decode" % cls, ["C11", "C12"])
    def _(c):
        c.param("data", Ref("BytesIO"))
        c.returns(INT)
        c.requires("0 <= data.pos <= len(data.buf)", "a-stream-position")
        fmt = declared_format(cls)
        # (a class without the line - a decoder rewritten without struct - has no _unpack call either: the model is unused)
        ok = fmt is None or (struct.calcsize(fmt) == width and fmt.startswith(">") and fmt[1:].islower() == signed)
        c.requires("True" if ok else "False", "the-class-declares-a-big-endian-%d-byte-%s-format" % (width, "signed" if signed else "unsigned"))
        c.call("data.read", returns=BYTES, modifies=["BytesIO.pos"],
               post=["len(result) == min(a0, len(data.buf) - old(data.pos))", "data.pos == old(data.pos) + len(result)"]
               # (one clause per byte instead of a quantifier: the count is at most the width)
               + ["implies(%d < len(result), result[%d] == data.buf[old(data.pos) + %d])" % (j, j, j) for j in range(width)],
               pre=[("a-non-negative-count", "a0 >= 0")],
               note="io.BytesIO.read(n): the next min(n, remaining) bytes, the position moves past them")
        c.call("_unpack", returns=INT, raises=[("ValueError", "len(a1) != %d" % width, True)],
               post=["result == be_val(a1, 0, %d, %s)" % (width, signed)],
               note="types._unpack(cls._unpack, chunk) with cls._unpack = struct.Struct(%r).unpack: the value of a chunk of exactly "
                    "%d bytes, ValueError for any other length (struct.error re-raised)" % (fmt, width))
        c.call("int.from_bytes", returns=INT,
               post=["implies(len(a0) == %d, result == be_val(a0, 0, %d, kw_signed))" % (n, n) for n in range(0, width + 1)],
               note="int.from_bytes(chunk, 'big', signed=...): the value of however many bytes it is given (0 for none)")
        c.modifies("data.pos")
        c.raises("the-stream-ends-before-the-value-does", "ValueError", when="len(data.buf) - data.pos < %d" % width, exact=True)
        c.ensures("the-big-endian-value-of-the-next-%d-bytes" % width, "result == be_val(data.buf, old(data.pos), %d, %s)" % (width, signed))
        c.ensures("exactly-%d-bytes-consumed" % width, "data.pos == old(data.pos) + %d" % width)
        c.replay_fn = lambda model, ob=None: {"script": _SCRIPT % {"cls": cls, "width": width, "signed": signed}}


for _cls, (_w, _s) in WIDTHS.items():
    _mk(_cls, _w, _s)


_SCRIPT = '''
import io
from aiokafka.protocol import types as T
cls, width, signed = T.%(cls)s, %(width)d, %(signed)s
bad = []
chunks = [bytes([0x80] + [1] * (width - 1)), bytes([0xff] * width), bytes(range(1, width + 1)), bytes(width)]
for chunk in chunks:
    for k in range(width + 1):
        buf = io.BytesIO(b"\\xaa" + chunk[:k] + (b"\\xbb\\xcc" if k == width else b""))
        buf.read(1)
        try:
            got = cls.decode(buf)
        except ValueError:
            got = "ValueError"
        except Exception as e:
            got = "raised " + type(e).__name__
        want = int.from_bytes(chunk, "big", signed=signed) if k == width else "ValueError"
        if got != want or (k == width and buf.tell() != 1 + width):
            bad.append((chunk[:k].hex(), got, want))
VIOLATED = bool(bad)
DETAIL = "%(cls)s.decode over (bytes left, result, expected): " + repr(bad[:4]) if bad else "ok"
'''
