"""Replay for the memory-safety obligations of the compiled record decoders (C10). Runs under /venv/bin/python.

The decoders are rebuilt from the .pyx sources of the tree under test (tools/cext.py), then fed crafted buffers:
  * in-process: an internal error (SystemError / MemoryError), or a decode that does not terminate, is a violation;
  * the same cases once more in a child process under valgrind (PYTHONMALLOC=malloc, inputs copied into exact-size
    heap blocks): an 'Invalid read' inside one of the extension modules is a read outside the supplied buffer.
sweep(which) -> list of problem strings; which in {"legacy", "default", "memory"}."""
import os
import struct
import subprocess
import sys

HERE = os.path.dirname(os.path.dirname(os.path.abspath(__file__)))


def ext_dir():
    sys.path.insert(0, os.path.join(HERE, "tools"))
    import cext
    return cext.ensure(os.environ.get("PYVC_REPO", "/repo"))


# ------------------------------------------------------------------ crafted inputs
def legacy_msg(magic, key, value, keylen=None, vallen=None, tail=b"", attrs=0, offset=0):
    body = struct.pack(">I", 0) + bytes([magic, attrs])
    if magic == 1:
        body += struct.pack(">q", 1000)
    body += struct.pack(">i", len(key) if keylen is None else keylen) + (key or b"")
    if vallen != "omit":
        body += struct.pack(">i", len(value) if vallen is None else vallen) + (value or b"")
    body += tail
    return struct.pack(">qi", offset, len(body)) + body


def legacy_cases():
    import gzip
    cs = []
    for magic in (0, 1):
        cs.append(("legacy v%d key length -2" % magic, magic, legacy_msg(magic, b"", b"", keylen=-2)))
        cs.append(("legacy v%d value length -7" % magic, magic, legacy_msg(magic, b"k", b"", vallen=-7)))
        cs.append(("legacy v%d key runs to the end of the buffer" % magic, magic, legacy_msg(magic, b"k" * 8, None, vallen="omit")))
        cs.append(("legacy v%d well-formed" % magic, magic, legacy_msg(magic, b"k", b"v")))
        for inner_len in (-12, -13, -2 ** 31, 5):
            inner = struct.pack(">qi", 0, inner_len) + b"\x00" * 3
            cs.append(("legacy v%d gzip wrapper, inner message length %d" % (magic, inner_len), magic,
                       legacy_msg(magic, b"", gzip.compress(inner), keylen=-1, attrs=1, offset=5)))
    return cs


def run_case(kind, magic, data):
    """decode fully; -> None or a problem string (internal errors only; clean exceptions are fine)"""
    from aiokafka.errors import CorruptRecordException
    try:
        if kind == "legacy":
            from aiokafka.record._crecords.legacy_records import LegacyRecordBatch
            b = LegacyRecordBatch(bytes(bytearray(data)), magic)
            for _ in b:
                pass
        elif kind == "default":
            from aiokafka.record._crecords.default_records import DefaultRecordBatch
            b = DefaultRecordBatch(bytes(bytearray(data)))
            for _ in b:
                pass
        else:
            from aiokafka.record._crecords.memory_records import MemoryRecords
            m = MemoryRecords(bytes(bytearray(data)))
            while True:
                b = m.next_batch()
                if b is None:
                    break
                for _ in b:
                    pass
    except (SystemError, MemoryError) as e:
        return "raised %s: %s" % (type(e).__name__, e)
    except Exception:
        return None
    return None


CASES = {"legacy": legacy_cases}


def child(which, only=None):
    sys.path.insert(0, ext_dir())
    import signal
    for i, (name, magic, data) in enumerate(CASES[which]()):
        if only is not None and i not in only:
            continue
        print("CASE %d %s" % (i, name), flush=True)
        sys.stderr.write("CASE %d %s\n" % (i, name))
        sys.stderr.flush()
        signal.alarm(10)
        try:
            r = run_case(which, magic, data)
        finally:
            signal.alarm(0)
        if r:
            print("PROBLEM %d %s: %s" % (i, name, r), flush=True)


def sweep(which, valgrind=True):
    bad = []
    env = dict(os.environ, PYTHONMALLOC="malloc")
    me = os.path.abspath(__file__)
    # plain behaviour: one child per case, so that a hang or a crash is attributed to its case and the others still run
    ncases = len(CASES[which]())
    terminated = []
    for k in range(ncases):
        r = subprocess.run([sys.executable, me, "child", which, str(k)], capture_output=True, text=True, timeout=120, env=env)
        cur = None
        for ln in r.stdout.splitlines():
            if ln.startswith("CASE "):
                cur = ln[5:]
            elif ln.startswith("PROBLEM "):
                bad.append(ln[8:])
        if r.returncode != 0:
            bad.append("%s: decoder process died (exit %d, %s)" % (cur, r.returncode,
                       "SIGALRM: no termination within 10 s" if r.returncode == -14 else "signal/crash"))
        else:
            terminated.append(k)
    if valgrind and shutil_which("valgrind") and terminated:
        v = subprocess.run(["valgrind", "-q", "--error-limit=no", sys.executable, me, "child", which, ",".join(map(str, terminated))],
                           capture_output=True, text=True, timeout=1800, env=env)
        cur, seen = None, set()
        lines = v.stderr.splitlines()
        for i, ln in enumerate(lines):
            if ln.startswith("CASE "):
                cur = ln[5:]
            elif "Invalid read" in ln or "Invalid write" in ln:
                ctx = " ".join(lines[i:i + 6])
                if "_crecords" in ctx and cur not in seen:
                    seen.add(cur)
                    where = [x for x in ctx.split() if x.startswith("__pyx_")][:2]
                    bad.append("%s: valgrind %s in %s" % (cur, ln.split("==")[-1].strip(), " <- ".join(where)))
    return bad


def shutil_which(x):
    import shutil
    return shutil.which(x)


if __name__ == "__main__":
    if sys.argv[1] == "child":
        child(sys.argv[2], set(map(int, sys.argv[3].split(","))) if len(sys.argv) > 3 else None)
    else:
        for b in sweep(sys.argv[1]):
            print(b)
