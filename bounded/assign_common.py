"""Shared by bounded/C14.py and bounded/C15.py: runs the real assignors over generated groups."""
import itertools
import random


_CLUSTERS = {}


def Cluster(parts):
    """The real aiokafka.cluster.ClusterMetadata, filled from a real MetadataResponse.
    parts: topic -> number of partitions, or None (the cluster has no metadata for it). A topic whose name starts with
    '__' is flagged internal in the metadata (like __consumer_offsets): ClusterMetadata.topics() leaves those out,
    partitions_for_topic() knows them."""
    key = tuple(sorted((t, -1 if n is None else n) for t, n in parts.items()))
    c = _CLUSTERS.get(key)
    if c is None:
        from aiokafka.cluster import ClusterMetadata
        from aiokafka.protocol.metadata import MetadataResponse_v1
        c = ClusterMetadata()
        topics = [(0, t, t.startswith("__"), [(0, p, 0, [0], [0]) for p in range(n)])
                  for t, n in sorted(parts.items()) if n is not None]
        c.update_metadata(MetadataResponse_v1([(0, "h", 9092, None)], 0, topics))
        if len(_CLUSTERS) > 20000:
            _CLUSTERS.clear()
        _CLUSTERS[key] = c
    return c


def assignors():
    from aiokafka.coordinator.assignors.range import RangePartitionAssignor
    from aiokafka.coordinator.assignors.roundrobin import RoundRobinPartitionAssignor
    from aiokafka.coordinator.assignors.sticky.sticky_assignor import StickyPartitionAssignor
    return {"range": RangePartitionAssignor, "roundrobin": RoundRobinPartitionAssignor, "sticky": StickyPartitionAssignor}


def members_for(assignor, subs, previous=None, generation=1, generations=None):
    """subs: {member: [topics]}; previous: {member: [TopicPartition]} carried through the real user-data encoding;
    generations: {member: generation} for members that report another generation than `generation` (a member that
    missed the last rebalance reports what it owned before, with that generation)."""
    from aiokafka.coordinator.protocol import ConsumerProtocolMemberMetadata
    out = {}
    for mi, (m, topics) in enumerate(subs.items()):
        # the topics are listed in the order the caller gives (a member lists its subscription in set order, i.e. any
        # order; an earlier version sorted them here and so never exercised a non-alphabetical listing: seeded C15-c)
        if assignor.name == "sticky" and previous is not None and m in previous:
            prev = list(previous[m])
            if mi % 2:
                # every other member reports its partitions interleaved by topic (t0-0, t1-0, t0-1, ...): a member may
                # list what it owns in any order, e.g. the order a foreign leader's SyncGroup had them in (seeded C15-f)
                prev.sort(key=lambda tp: (tp.partition, tp.topic))
            out[m] = assignor._metadata(list(topics), prev, (generations or {}).get(m, generation))
        else:
            out[m] = ConsumerProtocolMemberMetadata(assignor.version, list(topics), b"")
    return out


def run(assignor, parts, subs, previous=None, generation=1, generations=None):
    """-> {member: set of (topic, partition)} as decoded from the ConsumerProtocolMemberAssignment objects."""
    res = assignor.assign(Cluster(parts), members_for(assignor, subs, previous, generation, generations))
    out = {}
    for m, a in res.items():
        s = []
        for topic, partitions in a.assignment:
            s.extend((topic, p) for p in partitions)
        out[m] = s
    return out


def check_valid(parts, subs, result):
    """C14 clause 1: each partition of each subscribed topic with metadata goes to exactly one member subscribed
    to that topic; nothing else is assigned; every member has an entry."""
    errs = []
    if set(result) != set(subs):
        errs.append("members with an entry %r != members %r" % (sorted(result), sorted(subs)))
    owner = {}
    for m, tps in result.items():
        for tp in tps:
            if tp in owner:
                errs.append("%r assigned to both %s and %s" % (tp, owner[tp], m))
            owner[tp] = m
            if tp[0] not in subs.get(m, ()):
                errs.append("%r assigned to %s which is not subscribed to %s" % (tp, m, tp[0]))
    want = set()
    for t in set(itertools.chain.from_iterable(subs.values())):
        n = parts.get(t)
        if n is not None:
            want.update((t, p) for p in range(n))
    if set(owner) != want:
        errs.append("assigned %r but subscribed partitions with metadata are %r" % (sorted(set(owner) - want) or "less", sorted(want - set(owner)) or "same"))
    return errs


def check_balance(name, parts, subs, result):
    errs = []
    loads = {m: len(v) for m, v in result.items()}
    if name == "roundrobin" and len(set(map(frozenset, subs.values()))) == 1 and loads:
        if max(loads.values()) - min(loads.values()) > 1:
            errs.append("round-robin with identical subscriptions: loads %r differ by more than one" % loads)
    if name == "range":
        for t in set(itertools.chain.from_iterable(subs.values())):
            per = [sum(1 for tp in result[m] if tp[0] == t) for m in subs if t in subs[m]]
            if per and max(per) - min(per) > 1:
                errs.append("range: topic %s per-member loads %r differ by more than one" % (t, per))
    if name == "sticky":
        # KIP-54: no member could take a partition it is subscribed to from a member holding at least two more
        for a in subs:
            for b in subs:
                if loads.get(b, 0) >= loads.get(a, 0) + 2:
                    for tp in result[b]:
                        if tp[0] in subs[a]:
                            errs.append("sticky not balanced: %s (%d) could take %r from %s (%d)" % (a, loads[a], tp, b, loads[b]))
                            break
    return errs


def box(max_members, topics, max_parts, include_no_metadata=True):
    """The property's exhaustive space, up to renaming of members: multisets of non-empty subscriptions."""
    subsets = [s for r in range(1, len(topics) + 1) for s in itertools.combinations(topics, r)]
    pvals = list(range(0, max_parts + 1)) + ([None] if include_no_metadata else [])
    for pc in itertools.product(pvals, repeat=len(topics)):
        parts = dict(zip(topics, pc))
        for k in range(1, max_members + 1):
            for combo in itertools.combinations_with_replacement(subsets, k):
                yield parts, {"m%d" % i: list(s) for i, s in enumerate(combo)}


def random_case(rnd, max_members=12, max_topics=8, max_parts=12):
    nt = rnd.randint(1, max_topics)
    topics = ["t%d" % i for i in range(nt)]
    parts = {t: (None if rnd.random() < 0.05 else rnd.randint(0, max_parts)) for t in topics}
    k = rnd.randint(1, max_members)
    subs = {}
    same = rnd.random() < 0.4
    base = rnd.sample(topics, rnd.randint(1, nt))
    for i in range(k):
        subs["c%02d" % i] = list(base) if same else rnd.sample(topics, rnd.randint(1, nt))
    return parts, subs
