"""C03 / C08 / C13 — aiokafka/consumer/fetcher.py: Fetcher._get_actions_per_node, where the fetch routine decides what
to ask the brokers for.

C03: "the records returned ... are exactly the visible records of the log at offsets at or after the current start
position ... nothing is returned from a partition while it is paused": a FetchRequest names a partition only when it is
assigned, has a position, is not paused and has nothing buffered, and asks for exactly its current position (the
response is matched against that offset again by _proc_fetch_request, under contract). C08: the request carries the
consumer's isolation level. C13: a partition without a position is handed to the reset path under its *leader*."""
import z3
from pyvc import ty as T
from pyvc.contract import contract, classmodel, specfn, SPEC_TYPES, CLASSES
from pyvc.ty import V, INT, BOOL, REAL, STR, NONE, EXC, BYTES, Opt, Tup, List, Set, Dict, Ref, Opaque
from pyvc.exec_base import Fut
from .common import TP
from . import fetcher_proc, fetcher_handout, subscription_state      # noqa: F401

MOD = "aiokafka.consumer.fetcher"
NODE = Opt(INT)                  # a node id, None (unknown) included; -1 means "leader not available"
SPEC_TYPES["NODE"] = NODE
F = CLASSES["Fetcher"].fields
F.update({"_in_flight": Set(NODE), "_fetcher_timeout": REAL, "_fetch_max_wait_ms": INT, "_fetch_min_bytes": INT,
          "_fetch_max_bytes": INT})
CLASSES["ClientObj"].fields["cluster"] = Ref("ClusterObj")
classmodel("ClusterObj", {})
ENTRY = Tup(TP, INT)
STATE = "assignment._tp_state[%s]"


@contract(MOD + ":Fetcher._get_actions_per_node", ["C03", "C08", "C13"])
def _(c):
    c.self_("Fetcher")
    c.param("assignment", Ref("Assignment"))
    c.returns(Tup(List(Tup(NODE, Ref("FetchReq"))), Dict(NODE, List(TP)), REAL, BOOL, List(Opt(Fut(NONE)))))
    c.local("fetchable", Dict(NODE, List(ENTRY), default="list"))
    c.local("awaiting_reset", Dict(NODE, List(TP), default="list"))
    c.local("backoff_by_nodes", Dict(NODE, List(REAL), default="list"))
    c.local("resume_futures", List(Opt(Fut(NONE))))
    c.local("fetch_requests", List(Tup(NODE, Ref("FetchReq"))))
    c.local("by_topics", Dict(STR, List(Tup(INT, INT, INT)), default="list"))
    c.abstract_local("backoff", REAL)           # time arithmetic over the buffered results: irrelevant to what is fetched
    c.none_raises = True
    c.call("self._select_read_replica", returns=NODE, note="the partition leader or a still valid KIP-392 read replica: some node id, -1 or None")
    c.call("self._client.cluster.leader_for_partition", returns=NODE, note="cluster metadata lookup: some leader id, -1 or None")
    c.call("random.shuffle", permutes=0, note="random.shuffle(list): the same elements in some order")
    c.call("FetchRequest", returns=Ref("FetchReq"), post=["fresh(result)"], kwargs=["rack_id"], nargs=5,
           note="FetchRequest(max_wait_ms, min_bytes, max_bytes, isolation_level, topics, rack_id=): builder object (wire form: bounded C11)")
    c.call("list", returns=List(Tup(STR, List(Tup(INT, INT, INT)))), note="list(dict.items()): the entries collected above")
    c.raises("a-partition-lost-its-position-meanwhile", "Exception")
    c.replay_fn = lambda model, ob=None: {"script": _ACTIONS_SCRIPT}
    CUR = ("forall(NODE, lambda q: forall(lambda k: implies(q in fetchable and 0 <= k < len(fetchable[q]),"
           " fetchable[q][k][0] in assignment._tp_state"
           " and assignment._tp_state[fetchable[q][k][0]]._position is not None"
           " and fetchable[q][k][1] == assignment._tp_state[fetchable[q][k][0]]._position)))")
    c.loop(0, header="for tp in assignment.tps", invariants=[("fetchable-entries-carry-current-positions", CUR)])
    c.loop(1, header="for node_id, partition_data in fetchable.items()", invariants=[("fetchable-entries-carry-current-positions", CUR)])
    c.loop(2, header="for tp, position in partition_data", invariants=[
        ("entries-of-this-node-carry-current-positions",
         "forall(lambda k: implies(0 <= k < len(partition_data), partition_data[k][0] in assignment._tp_state"
         " and assignment._tp_state[partition_data[k][0]]._position is not None"
         " and partition_data[k][1] == assignment._tp_state[partition_data[k][0]]._position))"),
    ])
    c.hook("before", "fetchable*.append", [
        ("assert", "fetches-only-an-assigned-unbuffered-unpaused-partition-with-a-position",
         "tp in assignment._topic_partitions and tp not in self._records and not " + STATE % "tp" + "._paused"
         " and " + STATE % "tp" + "._position is not None"),
        ("assert", "asks-for-exactly-the-current-position",
         "a0[0] == tp and a0[1] == " + STATE % "tp" + "._position"),
    ])
    c.hook("before", "by_topics*.append", [
        ("assert", "the-request-names-the-partition-at-its-current-position",
         "a0[0] == tp.partition and a0[1] == " + STATE % "tp" + "._position and a0[2] == self._max_partition_fetch_bytes"),
    ])
    c.hook("before", "FetchRequest", [
        ("assert", "the-request-carries-the-consumers-isolation-level", "a3 == self._isolation_level"),
    ])
    c.hook("before", "awaiting_reset*.append", [
        ("assert", "a-partition-without-a-position-goes-to-the-reset-path",
         "a0 == tp and " + STATE % "tp" + "._position is None and tp not in self._records"),
    ])
    c.hook("before", "resume_futures.append", [
        ("assert", "a-paused-partition-is-waited-for-not-fetched", STATE % "tp" + "._paused and a0 == " + STATE % "tp" + "._resume_fut"),
    ])


_ACTIONS_SCRIPT = '''
import sys
sys.path.insert(0, "/verif")
from specs import actions_replay
bad = actions_replay.sweep()
VIOLATED = bool(bad); DETAIL = repr(bad)
'''
