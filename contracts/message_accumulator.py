"""C02 / C01 / C07 — aiokafka/producer/message_accumulator.py."""
from pyvc.contract import contract, classmodel, specfn, SPEC_TYPES
from pyvc.ty import V, INT, BOOL, REAL, STR, NONE, EXC, BYTES, Opt, Tup, List, Set, Dict, Ref, Opaque
from pyvc.exec_base import Fut
from .common import TP, tupctor

MOD = "aiokafka.producer.message_accumulator"

# aiokafka.structs.RecordMetadata(topic, partition, topic_partition, offset, timestamp, timestamp_type, log_start_offset)
RM = Tup(STR, INT, TP, INT, Opt(INT), INT, Opt(INT),
         names=["topic", "partition", "topic_partition", "offset", "timestamp", "timestamp_type", "log_start_offset"])
# what the record builder returns per appended record (only the fields the accumulator reads)
META = Tup(INT, INT, names=["offset", "timestamp"])
MSGFUT = Fut(Opt(RM))
PAIR = Tup(MSGFUT, META)
SPEC_TYPES["RM"] = RM

classmodel("BatchBuilder", {
    "_relative_offset": INT,
    "_closed": BOOL,
    # ghost: the producer state stamped into the batch header (pid, epoch, base sequence) and how often
    "g_pid": INT, "g_epoch": INT, "g_seq": INT, "g_stamps": INT,
}, real=MOD + ":BatchBuilder")

classmodel("MessageBatch", {
    "_builder": Ref("BatchBuilder"),
    "_tp": TP,
    "_ttl": REAL,
    "_linger_time": REAL,
    "_ctime": REAL,
    "future": MSGFUT,
    "_msg_futures": List(PAIR),
    "_drain_waiter": Fut(NONE),
    "_retry_count": INT,
}, real=MOD + ":MessageBatch", props={"tp": "self._tp", "retry_count": "self._retry_count",
                                      "record_count": "self._builder._relative_offset"})

# ---- object invariant of MessageBatch -------------------------------------------------------
F = "self._msg_futures"
INV_DISTINCT = "forall(lambda j, k: implies(0 <= j < k < len(%s), %s[j][0] != %s[k][0]))" % (F, F, F)
INV_SEPARATE = ("forall(lambda j: implies(0 <= j < len(%s), %s[j][0] != self.future and %s[j][0] != self._drain_waiter"
                " and allocated(%s[j][0])))" % (F, F, F, F))
INV_MAIN = "self.future != self._drain_waiter"
BATCH_INV = [("record-futures-distinct", INV_DISTINCT), ("record-futures-separate", INV_SEPARATE),
             ("batch-futures-distinct", INV_MAIN), ("retry-count-non-negative", "self._retry_count >= 0")]
from pyvc.contract import CLASSES
CLASSES["MessageBatch"].invariants = list(BATCH_INV)
# never cancelled: the batch future is only handed out behind asyncio.shield() (add_batch) and nothing in the
# producer package cancels it; failure() would otherwise raise CancelledError from future.exception()
CLASSES["MessageBatch"].assumed = [("batch-future-never-cancelled", "not self.future.cancelled()")]
CLASSES["BatchBuilder"].invariants = [("count-non-negative", "self._relative_offset >= 0")]
# a batch is bounded by max_batch_size bytes, far below 2^31 records
CLASSES["BatchBuilder"].assumed = [("count-fits-int32", "self._relative_offset <= 2**31 - 1")]


def batch_inv(c, ensure=True):
    """object invariants are attached to the class model (required of self, ensured, assumed of other receivers)"""


# ---- BatchBuilder: the record codec behind it is under contract in C09; here only its bookkeeping
def _append_posts(c):
    c.ensures("offset-is-relative-position", "implies(result is not None, result.offset == old(self._relative_offset)"
              " and self._relative_offset == old(self._relative_offset) + 1)")
    c.ensures("refusal-counts-nothing", "implies(result is None, self._relative_offset == old(self._relative_offset))")
    c.ensures("user-timestamp-kept", "implies(result is not None and timestamp is not None, result.timestamp == timestamp)")
    c.ensures("closed-refuses", "implies(old(self._closed), result is None)")


@contract(MOD + ":BatchBuilder.append", ["C02", "C01"])
def _(c):
    """the application's interface to a batch it builds itself: serializes with the serializers the batch was created with
    (create_batch() passes the producer's), then appends"""
    c.self_("BatchBuilder")
    c.param("timestamp", Opt(INT))
    c.param("key", Opt(Opaque("UserObject")))
    c.param("value", Opt(Opaque("UserObject")))
    c.param("headers", Opt(List(Tup(STR, Opt(BYTES)))), default="[]")
    c.returns(Opt(META))
    c.local("key_bytes", Opt(BYTES))
    c.local("value_bytes", Opt(BYTES))
    c.call("self._serialize", returns=Tup(Opt(BYTES), Opt(BYTES)), raises=["Exception"], note="BatchBuilder._serialize: the batch's own serializers (user code)")
    c.modifies("self._relative_offset", "self._closed")
    c.raises("a-serializer-failed", "Exception")
    _append_posts(c)


@contract(MOD + ":BatchBuilder._append_serialized", ["C02", "C01"])
def _(c):
    c.self_("BatchBuilder")
    c.param("timestamp", Opt(INT))
    c.param("key_bytes", Opt(BYTES))
    c.param("value_bytes", Opt(BYTES))
    c.param("headers", Opt(List(Tup(STR, Opt(BYTES)))))
    c.returns(Opt(META))
    c.modifies("self._relative_offset", "self._closed")
    c.trusted("delegates to DefaultRecordBatchBuilder.append (C09); assumed: a successful append returns metadata "
              "carrying the relative offset it was given and the record's timestamp, and counts the record")
    c.ensures("offset-is-relative-position", "implies(result is not None, result.offset == old(self._relative_offset)"
              " and self._relative_offset == old(self._relative_offset) + 1)")
    c.ensures("refusal-counts-nothing", "implies(result is None, self._relative_offset == old(self._relative_offset))")
    c.ensures("user-timestamp-kept", "implies(result is not None and timestamp is not None, result.timestamp == timestamp)")
    c.ensures("closed-refuses", "implies(old(self._closed), result is None)")


@contract(MOD + ":BatchBuilder.record_count", ["C02", "C01"])
def _(c):
    c.self_("BatchBuilder")
    c.returns(INT)
    c.ensures("def", "result == self._relative_offset")


@contract(MOD + ":BatchBuilder.close", ["C02", "C07"])
def _(c):
    c.self_("BatchBuilder")
    c.modifies("self._closed")
    c.ensures("closed", "self._closed")
    c.ensures("frame", "self._relative_offset == old(self._relative_offset)")


@contract(MOD + ":BatchBuilder._set_producer_state", "C01")
def _(c):
    c.self_("BatchBuilder")
    c.param("producer_id", INT)
    c.param("producer_epoch", INT)
    c.param("base_sequence", INT)
    c.modifies("self.g_pid", "self.g_epoch", "self.g_seq", "self.g_stamps")
    c.trusted("forwards to DefaultRecordBatchBuilder.set_producer_state, which stores the three header fields (C09)")
    c.ensures("stamped", "self.g_pid == producer_id and self.g_epoch == producer_epoch and self.g_seq == base_sequence"
              " and self.g_stamps == old(self.g_stamps) + 1")


# ---- MessageBatch ---------------------------------------------------------------------------
@contract(MOD + ":MessageBatch.append", "C02")
def _(c):
    c.self_("MessageBatch")
    c.param("key", Opt(BYTES))
    c.param("value", Opt(BYTES))
    c.param("timestamp_ms", Opt(INT))
    c.param("headers", List(Tup(STR, Opt(BYTES))))
    c.returns(Opt(MSGFUT))
    batch_inv(c)
    c.modifies("self._msg_futures", "self._builder._relative_offset", "self._builder._closed")
    c.ensures("fresh-pending-future", "implies(result is not None, fresh(result) and not result.done())")
    c.ensures("paired-with-its-metadata", "implies(result is not None, len(self._msg_futures) == len(old(self._msg_futures)) + 1"
              " and self._msg_futures[len(self._msg_futures) - 1][0] == result"
              " and self._msg_futures[len(self._msg_futures) - 1][1].offset == old(self._builder._relative_offset))")
    c.ensures("earlier-pairs-kept", "forall(lambda j: implies(0 <= j < len(old(self._msg_futures)),"
              " self._msg_futures[j] == old(self._msg_futures)[j]))")
    c.ensures("refused-adds-nothing", "implies(result is None, self._msg_futures == old(self._msg_futures))")
    c.ensures("no-future-touched", "forall(lambda r: implies(0 < r < old(nalloc()), fut_same(r)))")
    # C02 "that very record (same key, value and headers)": key and value arrive here as the bytes send() accepted (the
    # producer has serialized them); they go into the batch as they are, whatever serializers the batch was created with
    c.hook("before", "self._builder._append_serialized", [
        ("assert", "the-bytes-send-accepted-are-appended-as-they-are", "a0 == timestamp_ms and a1 == key and a2 == value and a3 == headers"),
    ])
    c.replay_fn = lambda model, ob=None: {"script": _OPEN_BATCH_SCRIPT}


# replay: a batch created the way create_batch() does (with the producer's serializer), submitted and left open; a later
# send() to the partition, serialized by the producer, is appended to it
_OPEN_BATCH_SCRIPT = '''
import asyncio, logging
logging.disable(logging.CRITICAL)
from aiokafka.producer.message_accumulator import MessageAccumulator
from aiokafka.record.memory_records import MemoryRecords
from aiokafka.structs import TopicPartition
class Cluster:
    def leader_for_partition(self, tp): return 0
async def main():
    acc = MessageAccumulator(Cluster(), 1 << 16, 0, 1000)
    ser = lambda v: ("<" + (v.decode() if isinstance(v, bytes) else str(v)) + ">").encode()
    tp = TopicPartition("t", 0)
    b = acc.create_builder(key_serializer=ser, value_serializer=ser)
    b.append(timestamp=None, key="k1", value="first")
    await acc.add_batch(b, tp, 1)
    await acc.add_message(tp, ser("k2"), ser("second"), 1)          # what producer.send(key="k2", value="second") hands over
    nodes, _ = acc.drain_by_nodes(ignore_nodes=[])
    mr = MemoryRecords(bytes(nodes[0][tp].get_data_buffer()))
    recs = [(r.key, r.value) for bt in iter(mr.next_batch, None) for r in bt]
    want = [(b"<k1>", b"<first>"), (b"<k2>", b"<second>")]
    return [] if recs == want else ["send() into an open batch built with create_batch(): the batch holds %r, accepted were %r" % (recs, want)]
bad = asyncio.run(main())
VIOLATED = bool(bad)
DETAIL = "%r" % (bad,) if bad else "ok"
'''


def _done_like(c, result_expr, extra_params=()):
    c.self_("MessageBatch")
    batch_inv(c)
    c.modifies("Future.state", "Future.nres", "Future.res")


# "a successful result names the ... offset at which that very record sits": the record's offset is the batch's base
# offset plus its position in the batch; when the broker reports no base offset (-1: DuplicateSequenceNumber, the
# broker no longer knows where the first copy went) no record may be given a made-up offset: all are -1 (unknown),
# as in the Java client's RecordMetadata
_COORD = ("RecordMetadata(self._tp.topic, self._tp.partition, self._tp,"
          " ite(base_offset == -1, -1, base_offset + self._msg_futures[j][1].offset),"
          " ite({ts} == -1, some_int(self._msg_futures[j][1].timestamp), {ts}),"
          " ite({ts} == -1, 0, 1), log_start_offset)")
TRUE_COORD = _COORD.format(ts="timestamp")
# inside the loop the local `timestamp` may have been re-assigned: the invariant speaks of the argument
TRUE_COORD_INV = _COORD.format(ts="old(timestamp)")


@contract(MOD + ":MessageBatch.done", "C02")
def _(c):
    _done_like(c, None)
    c.param("base_offset", INT)
    c.param("timestamp", Opt(INT))
    c.param("log_start_offset", Opt(INT))
    c.bind("RecordMetadata", tupctor(RM))
    c.loop(0, header="for future, metadata in self._msg_futures", invariants=[
        ("resolved-prefix", "forall(lambda j: implies(0 <= j < $i, self._msg_futures[j][0].done()"
         " and (old(self._msg_futures[j][0].done()) or self._msg_futures[j][0].result() == " + TRUE_COORD_INV + ")))"),
        ("untouched-suffix", "forall(lambda j: implies($i <= j < len(self._msg_futures), fut_same(self._msg_futures[j][0])))"),
        ("batch-future-done", "self.future.done()"),
        ("others-untouched", "forall(lambda r: implies(0 < r < old(nalloc()) and not is_record_future(self, r) and r != self.future, fut_same(r)))"),
    ])
    c.ensures("true-coordinates", "forall(lambda j: implies(0 <= j < len(self._msg_futures) and not old(self._msg_futures[j][0].done()),"
              " self._msg_futures[j][0].done() and self._msg_futures[j][0].result() == " + TRUE_COORD + "))")
    c.ensures("nothing-else-touched", "forall(lambda r: implies(0 < r < old(nalloc()) and not is_record_future(self, r) and r != self.future, fut_same(r)))")
    c.ensures("all-resolved", "self.future.done() and forall(lambda j: implies(0 <= j < len(self._msg_futures), self._msg_futures[j][0].done()))")
    c.ensures("resolved-before-untouched", "forall(lambda j: implies(0 <= j < len(self._msg_futures) and old(self._msg_futures[j][0].done()),"
              " fut_same(self._msg_futures[j][0])))")
    c.ensures("batch-coordinates", "implies(not old(self.future.done()), self.future.result() == RecordMetadata(self._tp.topic,"
              " self._tp.partition, self._tp, base_offset, timestamp, ite(timestamp == -1, 0, 1), log_start_offset))")

    @c.replay
    def replay(model, ob=None):
        return {"script": _DONE_SCRIPT}


_DONE_SCRIPT = '''
import asyncio
from aiokafka.producer.message_accumulator import MessageBatch, BatchBuilder
from aiokafka.structs import TopicPartition
async def main():
    bad = None
    for base in (100, -1):                  # -1: the broker does not know the offset (DuplicateSequenceNumber)
        for broker_ts in (-1, 777):
            b = MessageBatch(TopicPartition("t", 3), BatchBuilder(1 << 20, 0), 100, 0)
            futs = [b.append(b"k%d" % i, b"v", ts) for i, ts in enumerate((1000, 2000, 3000))]
            b.done(base, broker_ts, 5)
            for i, (f, ts) in enumerate(zip(futs, (1000, 2000, 3000))):
                md = f.result()
                want_ts = ts if broker_ts == -1 else broker_ts
                want_off = base + i if base != -1 else -1
                if (md.offset, md.timestamp, md.timestamp_type, md.partition, md.topic) != (want_off, want_ts, 0 if broker_ts == -1 else 1, 3, "t"):
                    bad = (base, broker_ts, i, md, want_off, want_ts); break
            if bad: break
        if bad: break
    return bad
bad = asyncio.run(main())
VIOLATED = bad is not None
DETAIL = "done(base_offset=%r, timestamp=%r): record %d resolved with %r, its offset is %r and its timestamp %r" % bad if bad else "three records resolve with their own coordinates"
'''


@contract(MOD + ":MessageBatch.done_noack", "C02")
def _(c):
    _done_like(c, None)
    c.loop(0, header="for future, _ in self._msg_futures", invariants=[
        ("resolved-prefix", "forall(lambda j: implies(0 <= j < $i, self._msg_futures[j][0].done()"
         " and (old(self._msg_futures[j][0].done()) or self._msg_futures[j][0].result() is None)))"),
        ("untouched-suffix", "forall(lambda j: implies($i <= j < len(self._msg_futures), fut_same(self._msg_futures[j][0])))"),
        ("batch-future-done", "self.future.done()"),
        ("others-untouched", "forall(lambda r: implies(0 < r < old(nalloc()) and not is_record_future(self, r) and r != self.future, fut_same(r)))"),
    ])
    c.ensures("no-metadata", "forall(lambda j: implies(0 <= j < len(self._msg_futures) and not old(self._msg_futures[j][0].done()),"
              " self._msg_futures[j][0].done() and self._msg_futures[j][0].result() is None))")
    c.ensures("nothing-else-touched", "forall(lambda r: implies(0 < r < old(nalloc()) and not is_record_future(self, r) and r != self.future, fut_same(r)))")
    c.ensures("all-resolved", "self.future.done() and forall(lambda j: implies(0 <= j < len(self._msg_futures), self._msg_futures[j][0].done()))")


@contract(MOD + ":MessageBatch.failure", "C02")
def _(c):
    c.self_("MessageBatch")
    c.param("exception", EXC)
    batch_inv(c)
    c.modifies("Future.state", "Future.nres", "Future.exc")
    c.call("copy.copy", returns="a0", note="copy.copy(exc) is an exception of the same class")
    c.loop(0, header="for future, _ in self._msg_futures", invariants=[
        ("resolved-prefix", "forall(lambda j: implies(0 <= j < $i, self._msg_futures[j][0].done()"
         " and (old(self._msg_futures[j][0].done()) or self._msg_futures[j][0].exception() == exception)))"),
        ("untouched-suffix", "forall(lambda j: implies($i <= j < len(self._msg_futures), fut_same(self._msg_futures[j][0])))"),
        ("batch-future-done", "self.future.done() and (old(self.future.done()) or self.future.exception() == exception)"),
        ("others-untouched", "forall(lambda r: implies(0 < r < old(nalloc()) and not is_record_future(self, r) and r != self.future, fut_same(r)))"),
    ])
    c.ensures("every-pending-record-fails-with-it", "forall(lambda j: implies(0 <= j < len(self._msg_futures) and not old(self._msg_futures[j][0].done()),"
              " self._msg_futures[j][0].done() and self._msg_futures[j][0].exception() == exception))")
    c.ensures("all-resolved", "self.future.done() and self._drain_waiter.done() and forall(lambda j: implies(0 <= j < len(self._msg_futures), self._msg_futures[j][0].done()))")
    c.ensures("resolved-before-untouched", "forall(lambda j: implies(0 <= j < len(self._msg_futures) and old(self._msg_futures[j][0].done()),"
              " fut_same(self._msg_futures[j][0])))")


@contract(MOD + ":MessageBatch.drain_ready", "C01")
def _(c):
    c.self_("MessageBatch")
    c.modifies("self._retry_count", "self._drain_waiter.state", "self._drain_waiter.nres")
    c.ensures("counted", "self._retry_count == old(self._retry_count) + 1")
    c.ensures("waiters-released", "self._drain_waiter.done()")


@contract(MOD + ":MessageBatch.reset_drain", ["C01", "C02", "C19"])
def _(c):
    c.self_("MessageBatch")
    c.modifies("self._drain_waiter")
    # C02 "resolved ... within bounded time", C19 "returns within a bound determined by the configured request ... timeouts":
    # a batch that cannot be delivered expires request_timeout_ms after its *creation*, however often it was retried
    c.ensures("a-retry-does-not-make-the-batch-younger", "self._ctime == old(self._ctime)")
    c.call("time.monotonic", returns=REAL, note="clock (not read by the unchanged function)")
    c.replay_fn = lambda model, ob=None: {"script": _RESET_DRAIN_SCRIPT}
    c.raises("not-drained", "AssertionError", when="not self._drain_waiter.done()", ensures=[("no-effect", "unchanged(self)")], exact=True)
    c.ensures("fresh-waiter", "fresh(self._drain_waiter) and not self._drain_waiter.done()")


# replay: a real batch retried every 20 ms with a ttl of 50 ms: it has to be expired after 50 ms
_RESET_DRAIN_SCRIPT = '''
import asyncio, time
from aiokafka.producer.message_accumulator import MessageBatch, BatchBuilder
from aiokafka.structs import TopicPartition
async def main():
    b = BatchBuilder(1 << 16, 0, is_transactional=False)
    b.append(timestamp=None, key=None, value=b"v")
    batch = MessageBatch(TopicPartition("t", 0), b, 0.05, 0)
    created = batch._ctime
    for _ in range(5):
        batch.drain_ready()
        await asyncio.sleep(0.02)
        batch.reset_drain()
    if batch._ctime != created or not batch.expired():
        return ["a batch with a ttl of 50 ms, retried every 20 ms for 100 ms: expired() is %s (age counted from %s)"
                % (batch.expired(), "its creation" if batch._ctime == created else "its last retry")]
    return []
bad = asyncio.run(main())
VIOLATED = bool(bad)
DETAIL = "%r" % (bad,) if bad else "ok"
'''


@contract(MOD + ":MessageBatch.set_producer_state", "C01")
def _(c):
    c.self_("MessageBatch")
    c.param("producer_id", INT)
    c.param("producer_epoch", INT)
    c.param("base_sequence", INT)
    c.modifies("self._builder.g_pid", "self._builder.g_epoch", "self._builder.g_seq", "self._builder.g_stamps")
    c.raises("already-drained", "AssertionError", when="self._drain_waiter.done()", ensures=[("no-effect", "unchanged(self._builder)")], exact=True)
    c.ensures("stamped", "self._builder.g_pid == producer_id and self._builder.g_epoch == producer_epoch"
              " and self._builder.g_seq == base_sequence and self._builder.g_stamps == old(self._builder.g_stamps) + 1")


@contract(MOD + ":MessageBatch.is_empty", ["C01", "C02"])
def _(c):
    c.self_("MessageBatch")
    c.returns(BOOL)
    c.ensures("def", "result == (self._builder._relative_offset == 0)")


# ---- spec helpers -----------------------------------------------------------------------------
@specfn("is_record_future")
def is_record_future(ex, st, batch, r):
    """r is one of the batch's per-record futures (entry-state list; the list itself is never changed by done*)."""
    import z3
    from pyvc import ty as T
    base = ex.spec_old if ex.spec_old is not None else ex.entry
    lst = V(List(PAIR), z3.Select(ex.hmap(base, "MessageBatch", "_msg_futures"), batch.t))
    j = z3.FreshConst(INT.sort(), "j")
    el = V(PAIR, z3.Select(T.list_arr(lst), j))
    return V(BOOL, z3.Exists([j], z3.And(j >= 0, j < T.list_len(lst), T.tup_get(el, 0).t == r.t)))


@specfn("some_int")
def some_int(ex, st, v):
    from pyvc import ty as T
    return T.coerce(v, Opt(INT))


@specfn("old_ts")
def old_ts(ex, st):
    """the `timestamp` argument as passed by the caller (the loop body re-assigns the local)."""
    return ex.entry.env["timestamp"]


# =================================================================== MessageAccumulator
BATCH = Ref("MessageBatch")
QUEUES = Dict(TP, List(BATCH), default="list")
SPEC_TYPES["BATCH"] = BATCH

classmodel("Cluster", {})
classmodel("Loop", {})
classmodel("TimerHandle", {"cancelled": BOOL})

classmodel("MessageAccumulator", {
    "_loop": Ref("Loop"),
    "_batches": QUEUES,
    "_pending_batches": Set(BATCH),
    "_cluster": Ref("Cluster"),
    "_batch_size": INT,
    "_compression_type": INT,
    "_batch_ttl": REAL,
    "_waiter_future": Fut(NONE),
    "_wakeup_handle": Opt(Ref("TimerHandle")),
    "_closed": BOOL,
    "_txn_manager": Opt(Ref("TransactionManager")),
    "_linger_time": REAL,
    "_exception": Opt(EXC),
}, real=MOD + ":MessageAccumulator")

# accumulator invariant: queues hold batches of their own partition; a key is present iff its queue is non-empty
ACC_INV = [
    ("queues-nonempty", "forall(TP, lambda q: implies(q in self._batches, len(self._batches[q]) >= 1))"),
    ("queues-hold-own-partition", "forall(TP, lambda q: forall(lambda j: implies(q in self._batches and 0 <= j < len(self._batches[q]),"
                                  " self._batches[q][j]._tp == q and allocated(self._batches[q][j]))))"),
]


def acc_inv(c, ensure=True):
    for lbl, e in ACC_INV:
        c.requires(e, "inv:" + lbl)
        if ensure:
            c.ensures("inv:" + lbl, e)


@contract(MOD + ":MessageAccumulator._pop_batch", ["C01", "C02"])
def _(c):
    c.self_("MessageAccumulator")
    c.param("tp", TP)
    c.returns(BATCH)
    acc_inv(c)
    c.requires("tp in self._batches", "queue-exists")
    c.requires("implies(self._txn_manager is not None, 0 <= seq_of(self._txn_manager._sequence_numbers, tp) <= 2**31 - 1)",
               "sequence-counter-int32")
    c.modifies("self._batches", "self._pending_batches", "MessageBatch._retry_count", "BatchBuilder.g_pid", "BatchBuilder.g_epoch",
               "BatchBuilder.g_seq", "BatchBuilder.g_stamps", "TransactionManager._sequence_numbers",
               "self._batches[tp][0]._drain_waiter.state", "self._batches[tp][0]._drain_waiter.nres")
    c.raises("no-producer-id-or-batch-already-failed", "AssertionError",
             when="self._txn_manager is not None and self._batches[tp][0]._retry_count == 0 and"
                  " (self._txn_manager._pid_and_epoch[0] == -1 or self._batches[tp][0]._drain_waiter.done())")
    c.ensures("pops-the-head", "result == old(self._batches[tp][0])")
    c.ensures("rest-of-queue-kept-in-order", "forall(lambda j: implies(0 <= j < len(old(self._batches[tp])) - 1,"
              " self._batches[tp][j] == old(self._batches[tp])[j + 1]))"
              " and len(self._batches[tp]) == len(old(self._batches[tp])) - 1")
    c.ensures("other-queues-untouched", "forall(TP, lambda q: implies(q != tp, (q in self._batches) == (q in old(self._batches))"
              " and self._batches[q] == old(self._batches)[q]))")
    c.ensures("now-pending", "result in self._pending_batches and forall(BATCH, lambda b: implies(b != result,"
              " (b in self._pending_batches) == (b in old(self._pending_batches))))")
    c.ensures("first-drain-stamps-current-sequence", "implies(self._txn_manager is not None and old(result._retry_count) == 0,"
              " result._builder.g_seq == old(seq_of(self._txn_manager._sequence_numbers, tp))"
              " and result._builder.g_pid == self._txn_manager._pid_and_epoch[0]"
              " and result._builder.g_epoch == self._txn_manager._pid_and_epoch[1]"
              " and result._builder.g_stamps == old(result._builder.g_stamps) + 1)")
    c.ensures("first-drain-advances-counter-by-record-count", "implies(self._txn_manager is not None and old(result._retry_count) == 0,"
              " seq_of(self._txn_manager._sequence_numbers, tp) == kafka_inc(old(seq_of(self._txn_manager._sequence_numbers, tp)),"
              " result._builder._relative_offset))")
    c.ensures("retry-keeps-stamp-and-counter", "implies(old(result._retry_count) > 0 or self._txn_manager is None,"
              " same_heap('BatchBuilder') and same_heap('TransactionManager'))")
    c.ensures("retry-counted", "result._retry_count == old(result._retry_count) + 1")
    c.ensures("other-batches-untouched", "forall(BATCH, lambda b: implies(b != result, unchanged(b)))")
    c.ensures("other-counters-untouched", "implies(self._txn_manager is not None, forall(TP, lambda q: implies(q != tp,"
              " seq_of(self._txn_manager._sequence_numbers, q) == old(seq_of(self._txn_manager._sequence_numbers, q)))))")
    c.ensures("counter-stays-int32", "implies(self._txn_manager is not None, 0 <= seq_of(self._txn_manager._sequence_numbers, tp) <= 2**31 - 1)")
    c.ensures("manager-identity", "self._txn_manager == old(self._txn_manager) and self._cluster == old(self._cluster)"
              " and implies(self._txn_manager is not None, self._txn_manager._pid_and_epoch == old(self._txn_manager._pid_and_epoch))")
    c.replay_fn = lambda model, ob=None: {"script": _POP_SCRIPT}


# replay: a real accumulator of an idempotent producer (with and without a transactional id): every first drain of a batch
# must stamp it with the producer id, epoch and the partition's next sequence number and advance the counter by the
# record count; a retried batch keeps its stamp
_POP_SCRIPT = '''
import asyncio, logging
logging.disable(logging.CRITICAL)
from aiokafka.producer.message_accumulator import MessageAccumulator
from aiokafka.producer.transaction_manager import TransactionManager
from aiokafka.record.default_records import DefaultRecordBatch
from aiokafka.structs import TopicPartition

class Cluster:
    def leader_for_partition(self, tp):
        return 1

async def scenario(transactional_id):
    tp = TopicPartition("t", 0)
    tm = TransactionManager(transactional_id, 1000)
    tm.set_pid_and_epoch(77, 3)
    if transactional_id:
        tm.begin_transaction()
    acc = MessageAccumulator(Cluster(), 1 << 16, 0, 1000, txn_manager=tm)
    bad = []
    expect = 0
    for round_, count in enumerate((2, 1, 3)):
        for i in range(count):
            await acc.add_message(tp, None, b"v%d" % i, 1)
        nodes, _ = acc.drain_by_nodes(ignore_nodes=[])
        batch = nodes[1][tp]
        hdr = DefaultRecordBatch(bytes(batch.get_data_buffer()))
        if (hdr.producer_id, hdr.producer_epoch, hdr.base_sequence) != (77, 3, expect):
            bad.append("batch %d (records %d) left with pid/epoch/base sequence %r, expected (77, 3, %d)" % (
                round_, count, (hdr.producer_id, hdr.producer_epoch, hdr.base_sequence), expect))
        expect += count
        if tm.sequence_number(tp) != expect:
            bad.append("after batch %d the sequence counter is %d, expected %d" % (round_, tm.sequence_number(tp), expect))
        if round_ == 1:
            acc.reenqueue(batch)                    # retriable failure: the retry must carry the same stamp
            nodes, _ = acc.drain_by_nodes(ignore_nodes=[])
            again = nodes[1][tp]
            h2 = DefaultRecordBatch(bytes(again.get_data_buffer()))
            if again is not batch or h2.base_sequence != hdr.base_sequence or tm.sequence_number(tp) != expect:
                bad.append("retry of batch 1 changed its stamp (%r -> %r) or the counter (%d)" % (hdr.base_sequence, h2.base_sequence, tm.sequence_number(tp)))
        batch.done_noack()
    return ["%s producer: %s" % ("transactional" if transactional_id else "idempotent", b) for b in bad]

async def main():
    return await scenario(None) + await scenario("tid")
bad = asyncio.run(main())
VIOLATED = bool(bad); DETAIL = "; ".join(bad[:3])
'''


@contract(MOD + ":MessageAccumulator.reenqueue", ["C01", "C02"])
def _(c):
    c.self_("MessageAccumulator")
    c.param("batch", BATCH)
    acc_inv(c)
    c.requires("batch in self._pending_batches", "was-drained")
    c.requires("batch._drain_waiter.done()", "drain-waiter-released")
    c.modifies("self._batches", "self._pending_batches", "batch._drain_waiter")
    c.ensures("at-the-front", "self._batches[batch._tp][0] == batch and batch._tp in self._batches")
    c.ensures("rest-of-queue-shifted", "len(self._batches[batch._tp]) == len(old(self._batches)[batch._tp]) + 1"
              " and forall(lambda j: implies(0 <= j < len(old(self._batches)[batch._tp]),"
              " self._batches[batch._tp][j + 1] == old(self._batches)[batch._tp][j]))")
    c.ensures("other-queues-untouched", "forall(TP, lambda q: implies(q != batch._tp, (q in self._batches) == (q in old(self._batches))"
              " and self._batches[q] == old(self._batches)[q]))")
    c.ensures("no-longer-pending", "batch not in self._pending_batches and forall(BATCH, lambda b: implies(b != batch,"
              " (b in self._pending_batches) == (b in old(self._pending_batches))))")
    c.ensures("drain-waiter-re-armed", "not batch._drain_waiter.done()")
    c.replay_fn = lambda model, ob=None: {"script": _REENQUEUE_SCRIPT}


# replay: a batch in flight fails retriably while a newer batch of the same partition is queued; after reenqueue() the
# retried batch must be drained first again
_REENQUEUE_SCRIPT = '''
import asyncio, logging
logging.disable(logging.CRITICAL)
from aiokafka.producer.message_accumulator import MessageAccumulator
from aiokafka.structs import TopicPartition

class Cluster:
    def leader_for_partition(self, tp):
        return 1

async def main():
    tp = TopicPartition("t", 0)
    acc = MessageAccumulator(Cluster(), 1 << 16, 0, 1000)
    await acc.add_message(tp, b"k", b"m1", 1)
    nodes, _ = acc.drain_by_nodes(ignore_nodes=[])
    b1 = nodes[1][tp]
    await acc.add_message(tp, b"k", b"m2", 1)          # a send() lands while b1 is in flight
    b2 = acc._batches[tp][0]
    acc.reenqueue(b1)                                  # b1 failed with a retriable error
    order = list(acc._batches[tp])
    nodes, _ = acc.drain_by_nodes(ignore_nodes=[])
    first = nodes[1][tp]
    for b in (b1, b2):
        b.done_noack()
    if order != [b1, b2] or first is not b1:
        return "after reenqueue() of the failed batch the queue is %s and the next drain takes %s: the newer batch overtakes the retry" % (
            ["b1" if b is b1 else "b2" for b in order], "b1" if first is b1 else "b2")
    return None
bad = asyncio.run(main())
VIOLATED = bad is not None; DETAIL = repr(bad)
'''


@specfn("kafka_inc")
def kafka_inc(ex, st, seq, n):
    """Kafka DefaultRecordBatch.incrementSequence (DESIGN.md Appendix C.3)."""
    import z3
    from pyvc import ty as T
    top = T.intval(2 ** 31 - 1).t
    return V(INT, z3.If(seq.t <= top - n.t, seq.t + n.t, n.t - (top - seq.t) - 1))


# ---- time-dependent helpers of MessageBatch --------------------------------------------------
@contract(MOD + ":BatchBuilder.closed", ["C01", "C07"])
def _(c):
    c.self_("BatchBuilder")
    c.returns(BOOL)
    c.ensures("def", "result == self._closed")


@contract(MOD + ":MessageBatch.expired", ["C01", "C02"])
def _(c):
    c.self_("MessageBatch")
    c.returns(BOOL)
    c.call("time.monotonic", returns=REAL, note="time.monotonic() returns some real number")


@contract(MOD + ":MessageBatch.remaining_linger", ["C01"])
def _(c):
    c.self_("MessageBatch")
    c.returns(Opt(REAL))
    c.call("time.monotonic", returns=REAL, note="time.monotonic() returns some real number")
    c.ensures("positive-or-none", "result is None or result > 0")
    c.ensures("closed-builder-never-lingers", "implies(self._builder._closed, result is None)")


@specfn("batch_ok")
def batch_ok(ex, st, b):
    """the MessageBatch object invariant, for batch b"""
    import z3
    cs = []
    for lbl, e in BATCH_INV:
        cs.append(ex.truthy(st, ex.spec_eval(e, st, extra={"self": b})))
    return V(BOOL, z3.And(cs))


QUEUED_OK = ("forall(TP, lambda q: forall(lambda j: implies(q in self._batches and 0 <= j < len(self._batches[q]),"
             " implies(self._batches[q][j]._retry_count == 0, not self._batches[q][j]._drain_waiter.done()))))")
SEQ_OK = ("implies(self._txn_manager is not None, forall(TP, lambda q:"
          " 0 <= seq_of(self._txn_manager._sequence_numbers, q) <= 2**31 - 1))")
NODES = Dict(INT, Dict(TP, BATCH), default="dict")
WAITS_FOR_LEADER = ("(q in self._batches and q not in muted_partitions"
                    " and (leader_of(self._cluster, q) is None or leader_of(self._cluster, q) == -1))")


@specfn("leader_of")
def leader_of(ex, st, cluster, tp):
    import z3
    oty = Opt(INT)
    f = z3.Function("leader_of", cluster.t.sort(), tp.t.sort(), oty.sort())
    return V(oty, f(cluster.t, tp.t))


@contract(MOD + ":MessageAccumulator.drain_by_nodes", ["C01", "C02", "C07"])
def _(c):
    c.self_("MessageAccumulator")
    c.param("ignore_nodes", Set(INT))
    c.param("muted_partitions", Set(TP))
    c.returns(Tup(NODES, BOOL))
    c.local("nodes", NODES)
    c.local("remaining_linger_time", Opt(REAL))
    acc_inv(c)
    c.requires(SEQ_OK, "sequence-counters-int32")
    c.modifies("self._batches", "self._pending_batches", "self._waiter_future", "self._wakeup_handle",
               "MessageBatch._retry_count", "BatchBuilder.g_pid", "BatchBuilder.g_epoch", "BatchBuilder.g_seq", "BatchBuilder.g_stamps",
               "TransactionManager._sequence_numbers", "Future.state", "Future.nres", "Future.exc", "Future.res",
               "TimerHandle.cancelled")
    # the metadata does not change while this synchronous function runs: the leader is a function of the partition
    c.call("self._cluster.leader_for_partition", returns="leader_of(self._cluster, a0)",
           note="cluster metadata lookup: some leader id, -1 or None; the same answer for the same partition within one call")
    c.call("self._wakeup_handle.cancel", modifies=["TimerHandle.cancelled"], note="TimerHandle.cancel() cancels that timer")
    c.call("self._loop.call_later", returns=Ref("TimerHandle"), post=["fresh(result)"], note="loop.call_later returns a new timer handle")
    # a batch that fail_all() failed while still queued trips set_producer_state's assertion when drained
    c.raises("drains-an-already-failed-batch-or-no-pid", "AssertionError")
    c.hook("before", "self._pop_batch", [
        ("assert", "muted-partition-never-drained", "tp not in muted_partitions"),
        ("assert", "only-queue-heads-leave", "tp in self._batches and self._batches[tp] == old(self._batches)[tp]"),
    ])
    c.hook("before", "batch.failure", [
        ("assert", "idempotent-producer-never-expires-a-batch", "self._txn_manager is None"),
    ])
    c.loop(0, header="for tp in list(self._batches.keys())", invariants=[
        ("unvisited-queues-untouched", "forall(TP, lambda q: implies(q not in $done, (q in self._batches) == (q in old(self._batches))"
         " and self._batches[q] == old(self._batches)[q]))"),
        ("muted-queues-untouched", "forall(TP, lambda q: implies(q in muted_partitions, (q in self._batches) == (q in old(self._batches))"
         " and self._batches[q] == old(self._batches)[q]))"),
        ("acc-inv-nonempty", ACC_INV[0][1]),
        ("acc-inv-own", ACC_INV[1][1]),
        ("seq-ok", SEQ_OK),
        ("txn-manager-fixed", "self._txn_manager == old(self._txn_manager) and self._cluster == old(self._cluster)"),
        ("visited-leaderless-queues-are-reported", "forall(TP, lambda q: implies(q in $done and " + WAITS_FOR_LEADER + ", unknown_leaders_exist))"),
    ])
    # C02 "resolved within bounded time after faults cease": the sender sleeps until the accumulator's waiter fires unless it
    # is told that some partition has no leader (then it polls the metadata); a queue left waiting for a leader that is not
    # reported is never looked at again, even after the leader is back
    c.ensures("every-queue-left-waiting-for-a-leader-is-reported",
              "forall(TP, lambda q: implies(" + WAITS_FOR_LEADER + ", result[1]))")
    c.ensures("muted-partitions-untouched", "forall(TP, lambda q: implies(q in muted_partitions,"
              " (q in self._batches) == (q in old(self._batches)) and self._batches[q] == old(self._batches)[q]))")
    c.ensures("fresh-waiter", "not self._waiter_future.done()")


@specfn("tail")
def tail(ex, st, lst):
    """lst[1:] in the same term shape deque.popleft() produces."""
    import z3
    from pyvc import ty as T
    j = z3.Const("j!pl", INT.sort())
    arr = z3.Lambda([j], z3.Select(T.list_arr(lst), j + T.intval(1).t))
    return T.list_mk(lst.ty, arr, T.list_len(lst) - T.intval(1).t)


_DRAIN_SCRIPT = '''
import asyncio, time
from aiokafka.producer.message_accumulator import MessageAccumulator
from aiokafka.producer.transaction_manager import TransactionManager
from aiokafka.structs import TopicPartition
class Cluster:
    def leader_for_partition(self, tp): return None          # leader unknown (stale metadata): a retriable condition
async def main():
    tm = TransactionManager(None, 1000)                        # idempotent, not transactional
    tm.set_pid_and_epoch(7, 0)
    acc = MessageAccumulator(Cluster(), 1 << 16, 0, 0.001, txn_manager=tm)     # batch ttl 1 ms
    tp = TopicPartition("t", 0)
    fut = await acc.add_message(tp, b"k", b"v", 1)
    await asyncio.sleep(0.01)                                  # the batch is now older than its ttl
    acc.drain_by_nodes(ignore_nodes=set())
    failed = fut.done() and fut.exception() is not None
    return failed, tm.sequence_number(tp), (repr(fut.exception()) if failed else None)
failed, seq, exc = asyncio.run(main())

# second scenario (non-idempotent producer): a retried, expired batch in front of a younger one, the partition leaderless:
# the expired one is failed, the younger one stays queued and waits for a leader - that has to be reported, it is the only
# thing that makes the sender look at the metadata again
async def second():
    class NoLeader:
        def leader_for_partition(self, tp): return -1
    acc = MessageAccumulator(NoLeader(), 1 << 16, 0, 0.05)
    tp = TopicPartition("t", 0)
    f1 = await acc.add_message(tp, b"k", b"old", 1)
    old_batch = acc._batches[tp][0]
    old_batch._builder.close() if hasattr(old_batch._builder, "close") else None
    await asyncio.sleep(0.08)                                  # the first batch is past its ttl
    acc._batches[tp].append(type(old_batch)(tp, acc.create_builder(), 0.05, 0))   # a younger batch behind it
    young = acc._batches[tp][1]
    f2 = young.append(None, b"young", None)
    nodes, unknown = acc.drain_by_nodes(ignore_nodes=set())
    left = tp in acc._batches and len(acc._batches[tp]) > 0
    for b in list(acc._batches.get(tp, [])):
        b.failure(exception=RuntimeError("end of replay"))
    for f in (f1, f2, old_batch.future, young.future):
        if f is not None and f.done() and not f.cancelled():
            f.exception()
    return left, unknown, f1.done()
left, unknown, first_failed = asyncio.run(second())
unreported = left and not unknown
VIOLATED = failed or unreported
DETAIL = ("idempotent producer: drain_by_nodes failed an accepted record with %s because its partition had no leader "
          "for longer than the batch ttl (a retriable condition), after consuming sequence numbers (counter now %d)" % (exc, seq)
          if failed else
          ("a batch stays queued for a partition without a leader (the expired batch in front of it was failed: %s) but "
           "drain_by_nodes reports no unknown leader: the sender never refreshes the metadata for it" % first_failed
           if unreported else "the batch stayed queued; the leaderless queue was reported"))
'''
from pyvc.contract import REGISTRY as _R
_R[MOD + ":MessageAccumulator.drain_by_nodes"].replay_fn = lambda model, ob=None: {"script": _DRAIN_SCRIPT}
