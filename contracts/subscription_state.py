"""C03 / C04 / C13 — aiokafka/consumer/subscription_state.py: TopicPartitionState and Assignment."""
from pyvc.contract import contract, classmodel, specfn, SPEC_TYPES, CLASSES
from pyvc.ty import V, INT, BOOL, REAL, STR, NONE, EXC, BYTES, Opt, Tup, List, Set, Dict, Ref, Opaque
from pyvc.exec_base import Fut
from .common import TP, enum_from_repo, tupctor

MOD = "aiokafka.consumer.subscription_state"
PS = enum_from_repo(MOD, "PartitionStatus")
OAM = Tup(INT, STR, names=["offset", "metadata"])            # aiokafka.structs.OffsetAndMetadata

classmodel("Event", {"g_set": BOOL})
classmodel("TPState", {
    "_committed_futs": List(Fut(OAM)),
    "_position": Opt(INT),
    "_position_fut": Fut(NONE),
    "_reset_strategy": Opt(INT),
    "_status": PS,
    "_assignment": Ref("Assignment"),
    "_paused": BOOL,
    "_resume_fut": Opt(Fut(NONE)),
}, real=MOD + ":TopicPartitionState",
    props={"paused": "self._paused", "has_valid_position": "self._position is not None",
           "awaiting_reset": "self._reset_strategy is not None", "reset_strategy": "self._reset_strategy",
           "resume_fut": "self._resume_fut"})
CLASSES["TPState"].invariants = [
    ("consuming-iff-position-known", "(self._status == PartitionStatus.CONSUMING) == (self._position is not None)"),
    ("pending-reset-has-no-position", "implies(self._reset_strategy is not None, self._position is None)"),
    ("paused-iff-resume-future", "self._paused == (self._resume_fut is not None)"),
    ("never-unassigned-status", "self._status != PartitionStatus.UNASSIGNED"),
]

classmodel("Assignment", {
    "_topic_partitions": Set(TP),
    "_tp_state": Dict(TP, Ref("TPState")),
    "unassign_future": Fut(NONE),
    "commit_refresh_needed": Ref("Event"),
}, real=MOD + ":Assignment", props={"tps": "self._topic_partitions", "active": "not self.unassign_future.done()"})
CLASSES["Assignment"].invariants = [
    ("every-partition-has-state", "forall(TP, lambda q: (q in self._topic_partitions) == (q in self._tp_state))"),
]
SPEC_TYPES["TPSTATE"] = Ref("TPState")


# ------------------------------------------------------------------------ TopicPartitionState
@contract(MOD + ":TopicPartitionState.position", ["C03", "C04", "C13"])
def _(c):
    c.self_("TPState")
    c.returns(INT)
    c.is_property = True
    c.raises("no-position", "AssertionError", when="self._position is None", ensures=[("no-effect", "unchanged(self)")], exact=True)
    c.ensures("value", "result == self._position")


@contract(MOD + ":TopicPartitionState.await_reset", ["C03", "C13"])
def _(c):
    c.self_("TPState")
    c.param("strategy", INT)
    c.modifies("self._reset_strategy", "self._position", "self._position_fut", "self._status")
    c.ensures("reset-pending-with-that-strategy", "self._reset_strategy == strategy and self._position is None"
              " and self._status == PartitionStatus.AWAITING_RESET")
    c.ensures("waiters-re-armed", "not self._position_fut.done()")
    c.ensures("pause-state-kept", "self._paused == old(self._paused) and self._resume_fut == old(self._resume_fut)")


@contract(MOD + ":TopicPartitionState.consumed_to", ["C03", "C04"])
def _(c):
    c.self_("TPState")
    c.param("position", INT)
    c.modifies("self._position")
    c.raises("not-consuming", "AssertionError", when="self._status != PartitionStatus.CONSUMING",
             ensures=[("no-effect", "unchanged(self)")], exact=True)
    c.ensures("position-set", "self._position == position")
    c.ensures("frame", "unchanged(self, '_status', '_reset_strategy', '_paused', '_resume_fut', '_position_fut', '_committed_futs')")


@contract(MOD + ":TopicPartitionState.reset_to", ["C03", "C13"])
def _(c):
    c.self_("TPState")
    c.param("position", INT)
    c.modifies("self._position", "self._reset_strategy", "self._status", "self._position_fut.state", "self._position_fut.nres")
    c.raises("not-awaiting-reset", "AssertionError", when="self._status != PartitionStatus.AWAITING_RESET",
             ensures=[("no-effect", "unchanged(self)"), ("futures-untouched", "same_heap('Future')")], exact=True)
    c.ensures("position-set", "self._position == position and self._reset_strategy is None and self._status == PartitionStatus.CONSUMING")
    c.ensures("waiters-released", "self._position_fut.done()")


@contract(MOD + ":TopicPartitionState.seek", ["C03", "C13"])
def _(c):
    c.self_("TPState")
    c.param("position", INT)
    c.modifies("self._position", "self._reset_strategy", "self._status", "self._position_fut.state", "self._position_fut.nres")
    c.ensures("position-is-the-sought-offset", "self._position == position")
    c.ensures("pending-reset-cancelled", "self._reset_strategy is None and self._status == PartitionStatus.CONSUMING")
    c.ensures("waiters-released", "self._position_fut.done()")


@contract(MOD + ":TopicPartitionState.pause", "C03")
def _(c):
    c.self_("TPState")
    c.modifies("self._paused", "self._resume_fut")
    c.ensures("paused", "self._paused")
    c.ensures("position-untouched", "unchanged(self, '_position', '_status', '_reset_strategy')")


@contract(MOD + ":TopicPartitionState.resume", "C03")
def _(c):
    c.self_("TPState")
    c.modifies("self._paused", "self._resume_fut", "Future.state", "Future.nres")
    c.requires("implies(self._resume_fut is not None, not self._resume_fut.done())", "resume-future-pending")
    c.ensures("resumed", "not self._paused")
    c.ensures("waiters-released", "implies(old(self._paused), old(self._resume_fut).done())")
    c.ensures("position-untouched", "unchanged(self, '_position', '_status', '_reset_strategy')")


# --------------------------------------------------------------------------------- Assignment
@contract(MOD + ":Assignment.state_value", ["C03", "C04", "C13"])
def _(c):
    c.self_("Assignment")
    c.param("tp", TP)
    c.returns(Opt(Ref("TPState")))
    c.ensures("lookup", "(result is None) == (tp not in self._tp_state) and implies(result is not None, result == self._tp_state[tp])")


@contract(MOD + ":Assignment.all_consumed_offsets", "C04")
def _(c):
    c.self_("Assignment")
    c.returns(Dict(TP, OAM))
    c.local("all_consumed", Dict(TP, OAM))
    c.bind("OffsetAndMetadata", tupctor(OAM))
    c.loop(0, header="for tp in self._topic_partitions", invariants=[
        ("exactly-the-visited-partitions-with-a-position", "forall(TP, lambda q: (q in all_consumed) =="
         " (q in $done and self._tp_state[q]._position is not None))"),
        ("each-is-the-current-position", "forall(TP, lambda q: implies(q in all_consumed,"
         " all_consumed[q].offset == self._tp_state[q]._position))"),
    ])
    c.ensures("exactly-the-partitions-with-a-valid-position", "forall(TP, lambda q: (q in result) =="
              " (q in self._topic_partitions and self._tp_state[q]._position is not None))")
    c.ensures("each-offset-is-the-position", "forall(TP, lambda q: implies(q in result, result[q].offset == self._tp_state[q]._position))")
    c.ensures("nothing-modified", "same_heap('TPState') and same_heap('Assignment')")
