"""C13 — bounded stand-in beside the proofs (never counted as proved). The proof of Fetcher._update_fetch_positions models the
ListOffsets round trip (_proc_offset_request: a star-unpacked partition entry whose shape depends on the response version is
outside the verified subset). Here the real _proc_offset_request / _update_fetch_positions run over real OffsetResponse
objects of every version the client negotiates (v0..v3): "otherwise the reset policy applies" means the position becomes
exactly the offset the broker answered for the strategy that was asked, and an error answer never becomes a position."""
import argparse
import asyncio
import json
import logging

logging.disable(logging.CRITICAL)


def emit(d):
    print("BOUNDED " + json.dumps(d, default=str))


def response(version, code, offset):
    from aiokafka.protocol import offset as P
    cls = getattr(P, "OffsetResponse_v%d" % version)
    if version == 0:
        part = (0, code, [offset] if offset is not None else [])
        return cls([("t", [part])])
    part = (0, code, 1234567, -1 if offset is None else offset)
    return cls([("t", [part])]) if version == 1 else cls(0, [("t", [part])])


async def one(version, code, offset, policy, strategy_asked):
    from aiokafka.client import AIOKafkaClient
    from aiokafka.consumer.fetcher import Fetcher, OffsetResetStrategy
    from aiokafka.consumer.subscription_state import SubscriptionState
    from aiokafka.structs import TopicPartition, OffsetAndMetadata
    client = AIOKafkaClient(bootstrap_servers=[])
    subs = SubscriptionState()
    fetcher = Fetcher(client, subs, auto_offset_reset=policy, retry_backoff_ms=1)
    await fetcher.close()              # its own fetch routine must not race with the call made here
    tp = TopicPartition("t", 0)
    subs.assign_from_user({tp})
    assignment = subs.subscription.assignment
    st = assignment.state_value(tp)
    asked = []

    async def send(node, request):
        asked.append(request)
        return response(version, code, offset)

    async def committed_server():
        # what the coordinator's commit-refresh routine does for a group with nothing committed
        while True:
            await assignment.commit_refresh_needed.wait()
            assignment.commit_refresh_needed.clear()
            st.update_committed(OffsetAndMetadata(-1, ""))
    client.send = send
    server = asyncio.ensure_future(committed_server())
    if strategy_asked is not None:
        st.await_reset(strategy_asked)                   # seek_to_beginning / seek_to_end
    want_strategy = strategy_asked if strategy_asked is not None else OffsetResetStrategy.from_str(policy)
    what = "v%d code=%d offset=%r policy=%s asked=%r" % (version, code, offset, policy, strategy_asked)
    try:
        # a hang here is a harness failure (TimeoutError propagates: checker error, never a verdict)
        await asyncio.wait_for(fetcher._update_fetch_positions(assignment, 0, [tp]), 10)
    finally:
        server.cancel()
    if policy == "none" and strategy_asked is None:
        # nothing committed, no policy: the error is stored for the caller, nothing is asked, no position appears
        if asked or st.has_valid_position or tp not in fetcher._records:
            return what + ": policy none without a committed offset must store NoOffsetForPartition and ask nothing"
        return None
    if not asked:
        return what + ": no ListOffsets request was sent"
    ts = [t for _, parts in asked[0]._topics for _, t in parts]
    if ts != [want_strategy]:
        return what + ": ListOffsets asked for timestamp %r, the strategy is %r" % (ts, want_strategy)
    if code == 0:
        if not st.has_valid_position or st.position != offset:
            return what + ": position is %r, the broker answered %d" % (st.position if st.has_valid_position else None, offset)
    elif st.has_valid_position:
        return what + ": an error answer became the position %r" % (st.position,)
    return None


def sweep():
    from aiokafka.consumer.fetcher import OffsetResetStrategy
    fails, n = [], 0

    async def main():
        nonlocal n
        for version in (0, 1, 2, 3):
            for code, offset in ((0, 0), (0, 5), (0, 2 ** 40), (6, 5), (3, 5), (1, 5), (29, 5)):
                for policy, asked in (("latest", None), ("earliest", None), ("none", None), ("latest", OffsetResetStrategy.EARLIEST),
                                      ("earliest", OffsetResetStrategy.LATEST), ("none", OffsetResetStrategy.LATEST)):
                    n += 1
                    r = await one(version, code, offset, policy, asked)
                    if r:
                        fails.append(r)
    asyncio.run(main())
    return n, fails


def relies_sweep(depth=5):
    """The proof of GroupCoordinator.__coordination_routine assumes, after every suspension, three facts about what the
    application's calls keep true of the subscription objects (DESIGN I.4). Every sequence of up to `depth` calls of
    subscribe / subscribe_pattern / assign_from_user / unsubscribe / assign_from_subscribed / begin_reassignment on a real
    SubscriptionState: after each call, over every Subscription object ever created."""
    import itertools
    import re
    from aiokafka.consumer.subscription_state import SubscriptionState, ManualSubscription
    from aiokafka.structs import TopicPartition
    from aiokafka.errors import IllegalStateError
    ops = {
        "subscribe(a)": lambda s: s.subscribe({"a"}),
        "subscribe(b)": lambda s: s.subscribe({"b"}),
        "pattern": lambda s: s.subscribe_pattern(re.compile("a.*")),
        "assign": lambda s: s.assign_from_user({TopicPartition("a", 0)}),
        "unsubscribe": lambda s: s.unsubscribe(),
        "assigned-by-group": lambda s: s.assign_from_subscribed({TopicPartition(t, 0) for t in (s.subscription.topics or {"a"})}),
        "begin-reassignment": lambda s: s.begin_reassignment(),
    }
    fails, n = [], 0

    async def main():
        nonlocal n
        for seq in itertools.product(sorted(ops), repeat=depth):
            st = SubscriptionState()
            seen = []
            for i, name in enumerate(seq):
                try:
                    ops[name](st)
                except (IllegalStateError, AttributeError, AssertionError, ValueError):
                    break                      # a call the API refuses in this state: the sequence ends here
                n += 1
                cur = st.subscription
                if cur is not None and cur not in seen:
                    seen.append(cur)
                for sub in seen:
                    if sub.active and sub.assignment is not None and not sub.assignment.active:
                        fails.append("%r: an active subscription holds a retired assignment" % (seq[:i + 1],))
                    if sub.active and sub is not cur:
                        fails.append("%r: a subscription that is not the current one is still active" % (seq[:i + 1],))
                    if isinstance(sub, ManualSubscription) and sub.assignment is None:
                        fails.append("%r: a manual subscription without its assignment" % (seq[:i + 1],))
                if len(fails) > 5:
                    return
    asyncio.run(main())
    return n, fails


def main():
    ap = argparse.ArgumentParser()
    ap.add_argument("--tier", default="quick")
    ap.add_argument("--seed", type=int, default=0)
    ap.parse_args()
    n, fails = sweep()
    emit({"name": "listoffsets-answer-becomes-the-position", "exhaustive": True, "cases": n, "distinct_nontrivial": n,
          "bound": "real Fetcher._update_fetch_positions / _proc_offset_request over real OffsetResponse v0..v3 objects: offsets 0, 5, "
                   "2^40, error codes 6, 3 (retriable), 1, 29 (not); code 43 is answered to timestamp searches only and not swept (the reset path has no entry for it: KeyError, noted in DESIGN I.7, round 8); reset by policy (nothing committed, served as the commit-refresh routine does) and by seek_to_beginning/end; "
                   "an empty v0 offset list (no conforming broker answers earliest/latest with it) is not part of the sweep",
          "failures": fails[:10], "replay": {"script": REPLAY}})
    n, fails = relies_sweep()
    emit({"name": "subscription-relies-of-the-coordination-routine", "exhaustive": True, "cases": n, "distinct_nontrivial": n,
          "bound": "every sequence of up to 5 calls out of subscribe(a), subscribe(b), subscribe_pattern, assign_from_user, unsubscribe, "
                   "assign_from_subscribed, begin_reassignment on a real SubscriptionState; the three relies of the __coordination_routine "
                   "contract checked after every call over every Subscription object created so far",
          "failures": fails[:10], "replay": {"script": REPLAY_RELIES}})


REPLAY_RELIES = '''
import sys
sys.path.insert(0, "/verif")
from bounded import C13
n, fails = C13.relies_sweep()
VIOLATED = bool(fails); DETAIL = "%d of %d states break an assumption the coordination routine's proof relies on; first: %r" % (len(fails), n, fails[:2])
'''


REPLAY = '''
import sys
sys.path.insert(0, "/verif")
from bounded import C13
n, fails = C13.sweep()
VIOLATED = bool(fails); DETAIL = "%d of %d ListOffsets answers were applied wrongly; first: %r" % (len(fails), n, fails[:2])
'''

if __name__ == "__main__":
    main()
