"""C07 / C16 — aiokafka/producer/sender.py: what the transactional requests carry (the handlers' create_request) and the
request / response / back-off round every handler goes through (BaseHandler.do).

C07 "every transaction still ends the way the application requested": EndTxn carries the result the application asked for
(commit or abort) under the producer's current identity; every transactional request names this producer's transactional id,
producer id and epoch (the coordinator fences a stale epoch). BaseHandler.do: a round counts as done only when
handle_response says so (None); every failed send and every "retry" answer is followed by a back-off and reported as not
done, so that the caller's loop sends the request again - a round never ends "done" without an answer having been handled."""
from pyvc.contract import contract, classmodel, specfn, SPEC_TYPES, CLASSES
from pyvc.ty import V, INT, BOOL, REAL, STR, NONE, EXC, BYTES, Opt, Tup, List, Set, Dict, Ref, Opaque
from pyvc.exec_base import Fut
from .common import TP
from . import sender as S, sender_txn, sender_txn_offsets, transaction_manager      # noqa: F401
from .sender_txn import TR_BIND, TS_BIND

MOD = S.MOD
classmodel("TxnRequestObj", {"g_transactional_id": Opt(STR), "g_producer_id": INT, "g_producer_epoch": INT})
IDENTITY = ("kw_transactional_id == self._sender._txn_manager.transactional_id"
            " and kw_producer_id == self._sender._txn_manager._pid_and_epoch[0]"
            " and kw_producer_epoch == self._sender._txn_manager._pid_and_epoch[1]")


def _req(c, cls_model, ctor, extra_assert=None):
    c.self_(cls_model)
    c.no_class_inv = True
    c.returns(Ref("TxnRequestObj"))
    c.requires("self._sender._txn_manager is not None", "transactional-sender")
    c.call(ctor, returns=Ref("TxnRequestObj"), post=["fresh(result)"], note=ctor + " builder object (wire form: bounded C11)")
    asserts = [("assert", "the-request-names-this-producers-transactional-id-id-and-epoch", IDENTITY)]
    if extra_assert:
        asserts.append(extra_assert)
    c.hook("before", ctor, asserts)


def _transaction_result_declaration():
    """(base class names, {member: literal value}) of TransactionResult as declared in transaction_manager.py"""
    import ast
    from pyvc import source
    mod = source.module("aiokafka.producer.transaction_manager")
    for n in mod.tree.body:
        if isinstance(n, ast.ClassDef) and n.name == "TransactionResult":
            vals = {}
            for st in n.body:
                if isinstance(st, ast.Assign) and len(st.targets) == 1 and isinstance(st.targets[0], ast.Name) \
                        and isinstance(st.value, ast.Constant):
                    vals[st.targets[0].id] = st.value.value
            return [ast.unparse(b) for b in n.bases], vals
    return [], {}


@contract(MOD + ":EndTxnHandler.create_request", ["C07", "C16"])
def _(c):
    _req(c, "EndTxnHandler", "EndTxnRequest",
         ("assert", "the-transaction-ends-the-way-that-was-requested", "kw_transaction_result == self._commit_result"))
    # The member handed over goes into the EndTxn request's Boolean `transaction_result` field, which the struct packs by
    # truth value: ABORT has to be false and COMMIT true *as booleans*. That holds because TransactionResult is an IntEnum
    # with ABORT = 0, COMMIT = 1 (every member of a plain Enum is true). Read from the declaration on every run.
    bases, vals = _transaction_result_declaration()
    ok = any(b.endswith("IntEnum") for b in bases) and vals.get("ABORT") == 0 and vals.get("COMMIT") == 1
    c.ensures("on-the-wire-ABORT-is-false-and-COMMIT-is-true", "True" if ok else "False")
    c.replay_fn = lambda model, ob=None: {"script": _END_TXN_WIRE_SCRIPT}


# replay: the request the real handler builds, prepared for v0 and encoded: the last byte is the transaction result
_END_TXN_WIRE_SCRIPT = '''
import asyncio
from unittest import mock
from aiokafka.producer.sender import EndTxnHandler
from aiokafka.producer.transaction_manager import TransactionManager, TransactionResult
async def main():
    bad = []
    for result, want in ((TransactionResult.ABORT, 0), (TransactionResult.COMMIT, 1)):
        tm = TransactionManager("tid", 1000)
        tm.set_pid_and_epoch(7, 3)
        snd = mock.MagicMock()
        snd._txn_manager = tm
        req = EndTxnHandler(snd, result).create_request()
        raw = req.prepare({26: (0, 0)}).encode()
        if raw[-1] != want:
            bad.append("EndTxn for %s carries transaction_result byte %d on the wire (0 = abort, 1 = commit)" % (result.name, raw[-1]))
    return bad
bad = asyncio.run(main())
VIOLATED = bool(bad)
DETAIL = "%r" % (bad,) if bad else "ok"
'''


@contract(MOD + ":AddOffsetsToTxnHandler.create_request", ["C07"])
def _(c):
    _req(c, "AddOffsetsHandler", "AddOffsetsToTxnRequest",
         ("assert", "the-group-whose-offsets-join-the-transaction", "kw_group_id == self._group_id"))


classmodel("AnyHandler", {"_sender": Ref("Sender"), "_default_backoff": REAL}, real=MOD + ":BaseHandler")
classmodel("AnyRequest", {})
classmodel("AnyResponse", {})


@contract(MOD + ":BaseHandler.do", ["C07", "C16", "C01"])
def _(c):
    c.self_("AnyHandler")
    c.param("node_id", INT)
    c.returns(BOOL)
    c.no_class_inv = True
    c.none_raises = True
    c.owns("self._sender", "self._default_backoff")
    c.ghost("$answered", BOOL, "False")
    c.ghost("$verdict", Opt(REAL), "None")
    c.ghost("$slept", BOOL, "False")
    c.ghost("$handled", BOOL, "False")
    c.call("self.create_request", returns=Ref("AnyRequest"), raises=["Exception"], note="the subclass's request")
    c.call("self._sender.client.send", returns=Ref("AnyResponse"), havoc_all=True,
           raises=["IncompatibleBrokerVersion", "NodeNotReadyError", "RequestTimedOutError", "KafkaError", "CancelledError"],
           ghost={"$answered": "True"}, note="AIOKafkaClient.send: suspends; the decoded response")
    c.call("self.handle_error", returns=REAL, note="the subclass's reaction to an unreachable node: the back-off to use")
    c.call("self.handle_response", returns=Opt(REAL), raises=["Exception"], ghost={"$verdict": "result", "$handled": "True"},
           modifies=["TransactionManager.*", "MessageAccumulator.*", "MessageBatch.*", "Sender.*", "Future.state", "Future.nres", "Future.exc", "Future.res"],
           note="the subclass's handle_response (each under contract): None = done, a number = retry after that many seconds")
    c.call("asyncio.sleep", havoc_all=True, raises=["CancelledError"], ghost={"$slept": "True"}, note="suspends")
    c.modifies("TransactionManager.*", "MessageAccumulator.*", "MessageBatch.*", "Sender.*", "Future.state", "Future.nres", "Future.exc", "Future.res")
    c.raises("fatal-answer-incompatible-broker-or-cancelled", "BaseException")
    c.hook("before", "self._sender.client.send", [("assert", "the-request-goes-to-the-node-given", "a0 == node_id and a1 == req")])
    c.hook("before", "self.handle_response", [("assert", "the-answer-received-is-the-answer-handled", "$answered and a0 == resp")])
    c.ensures_internal("done-only-when-an-answer-was-handled-and-asked-for-no-retry", "implies(result, $answered and $handled and $verdict is None)")
    c.ensures_internal("a-round-that-is-not-done-backed-off-first", "implies(not result, $slept)")


# ------------------------------------------------------------------ Sender._fail_all (done-callback of the sender task)
# C16 "after a fatal error ... every later transactional call and every pending send fails": a fatal error ends the sender task;
# this callback is what turns that into failed sends (accumulator) and a fatal transaction manager - in whatever state the
# manager is at that moment (the EndTxn reply of a commit arrives in COMMITTING_TRANSACTION, not IN_TRANSACTION)
@contract(MOD + ":Sender._fail_all", ["C16", "C02", "C19"])
def _(c):
    c.self_("Sender")
    c.param("task", Fut(NONE))
    c.no_class_inv = True
    c.requires("task.done()", "a-done-callback")
    c.ghost("$sends_failed", BOOL, "False")
    c.ghost("$manager_fatal", BOOL, "False")
    c.call("self._message_accumulator.fail_all", ghost={"$sends_failed": "True"},
           modifies=["MessageAccumulator.*", "MessageBatch.*", "Future.state", "Future.nres", "Future.exc"],
           note="MessageAccumulator.fail_all (under contract, accumulator_flush.py): every queued and in-flight batch fails with the error")
    c.call("self._txn_manager.fatal_error", ghost={"$manager_fatal": "True"}, raises=["AttributeError"],
           modifies=["TransactionManager.*", "Future.state", "Future.nres", "Future.exc"],
           note="TransactionManager.fatal_error (under contract, C16; abstracted because its precondition - a transaction waiter "
                "exists - is a fact about the caller's history: before the first begin_transaction() it ends in AttributeError "
                "after the state has become FATAL_ERROR)")
    c.modifies("MessageAccumulator.*", "MessageBatch.*", "TransactionManager.*", "Future.state", "Future.nres", "Future.exc")
    c.raises("the-manager-has-no-transaction-waiter-yet", "AttributeError")
    c.hook("before", "self._message_accumulator.fail_all", [("assert", "with-the-error-the-sender-died-of", "a0 == task.exception()")])
    c.hook("before", "self._txn_manager.fatal_error", [("assert", "with-the-error-the-sender-died-of", "a0 == task.exception()")])
    DIED = "not task.cancelled() and task.exception() is not None"
    c.ensures_internal("a-sender-that-died-of-an-error-fails-every-pending-send", "implies(%s, $sends_failed)" % DIED)
    c.ensures_internal("and-makes-the-transaction-manager-fatal-whatever-state-it-is-in",
                       "implies(%s and self._txn_manager is not None, $manager_fatal)" % DIED)
    c.replay_fn = lambda model, ob=None: {"script": _FAIL_ALL_SCRIPT}


_FAIL_ALL_SCRIPT = '''
import asyncio, logging
logging.disable(logging.CRITICAL)
from unittest import mock
from aiokafka.errors import ProducerFenced
from aiokafka.producer.sender import Sender
from aiokafka.producer.transaction_manager import TransactionManager, TransactionState
async def main():
    bad = []
    for state in ("IN_TRANSACTION", "COMMITTING_TRANSACTION", "ABORTING_TRANSACTION", "ABORTABLE_ERROR"):
        tm = TransactionManager("tid", 1000)
        tm.set_pid_and_epoch(1, 0)
        tm.begin_transaction()
        if state == "COMMITTING_TRANSACTION": tm.committing_transaction()
        elif state == "ABORTING_TRANSACTION": tm.aborting_transaction()
        elif state == "ABORTABLE_ERROR": tm.error_transaction(RuntimeError("abortable"))
        snd = Sender.__new__(Sender)
        snd._txn_manager = tm
        snd._message_accumulator = mock.MagicMock()
        task = asyncio.get_running_loop().create_future()
        task.set_exception(ProducerFenced())
        snd._fail_all(task)
        waiter = tm._transaction_waiter
        if tm.state != TransactionState.FATAL_ERROR or not waiter.done():
            bad.append("sender died with ProducerFenced while the manager was %s: state afterwards %s, transaction waiter %s"
                       % (state, tm.state.name, "resolved" if waiter.done() else "pending for ever"))
        if not snd._message_accumulator.fail_all.called:
            bad.append("%s: pending sends were not failed" % state)
        if waiter.done(): waiter.exception()
        task.exception()
    return bad
bad = asyncio.run(main())
VIOLATED = bool(bad)
DETAIL = "%r" % (bad[:3],) if bad else "ok"
'''
