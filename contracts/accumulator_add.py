"""C01 / C02 / C07 — aiokafka/producer/message_accumulator.py: how a record gets into the accumulator
(MessageAccumulator._append_batch, add_message).

C01 "in the order each sending task issued them": a record is appended to the LAST batch of its partition's queue, and a new
batch is queued at the END (retried batches come back to the front: reenqueue). C07 "never writes to a partition before the
coordinator acknowledged adding it ... never writes transactional data outside an open transaction": a new batch is created
only after the transaction manager has registered its partition (which refuses, without effect, outside an open
transaction). C02/C19: once the accumulator is closed or failed nothing is accepted any more."""
from pyvc.contract import contract, classmodel, specfn, SPEC_TYPES, CLASSES
from pyvc.ty import V, INT, BOOL, REAL, STR, NONE, EXC, BYTES, Opt, Tup, List, Set, Dict, Ref, Opaque
from pyvc.exec_base import Fut
from .common import TP
from . import message_accumulator as MA, transaction_manager      # noqa: F401

MOD = MA.MOD
BATCH = MA.BATCH
Q = "self._batches[tp]"
OLDQ = "old(self._batches)[tp]"
TXN = "self._txn_manager is not None and self._txn_manager.transactional_id is not None"


@contract(MOD + ":MessageAccumulator._append_batch", ["C01", "C02", "C07"])
def _(c):
    c.self_("MessageAccumulator")
    c.param("builder", Ref("BatchBuilder"))
    c.param("tp", TP)
    c.returns(BATCH)
    c.no_class_inv = True
    c.call("MessageBatch", returns=BATCH, nargs=4,
           post=["fresh(result)", "result._tp == a0", "result._builder == a1", "not result.future.done()", "len(result._msg_futures) == 0",
                 "result._retry_count == 0"],
           note="MessageBatch.__init__: stores tp and builder, creates its pending futures, no records yet")
    c.modifies("self._batches", "TransactionManager._pending_txn_partitions", "Future.state", "Future.nres")
    c.raises("the-transaction-manager-refuses-the-partition", "AssertionError",
             ensures=[("nothing-queued", "self._batches == old(self._batches)")])
    c.hook("before", "MessageBatch", [
        ("assert", "a-transactional-batch-is-created-only-for-a-partition-registered-with-the-open-transaction",
         "implies(" + TXN + ", self._txn_manager.state == TransactionState.IN_TRANSACTION"
         " and (tp in self._txn_manager._txn_partitions or tp in self._txn_manager._pending_txn_partitions))"),
    ])
    c.ensures("queued-at-the-end-of-its-partitions-queue",
              "tp in self._batches and len(" + Q + ") >= 1 and " + Q + "[len(" + Q + ") - 1] == result and result._tp == tp"
              " and result._builder == builder")
    c.ensures("earlier-batches-keep-their-place",
              "implies(tp in old(self._batches), len(" + Q + ") == len(" + OLDQ + ") + 1"
              " and forall(lambda j: implies(0 <= j < len(" + OLDQ + "), " + Q + "[j] == " + OLDQ + "[j])))"
              " and implies(tp not in old(self._batches), len(" + Q + ") == 1)")
    c.ensures("other-queues-untouched", "forall(TP, lambda q: implies(q != tp, (q in self._batches) == (q in old(self._batches))"
              " and implies(q in self._batches, self._batches[q] == old(self._batches)[q])))")
    c.ensures("the-sender-is-woken", "self._waiter_future.done()")
    from .sender_txn import TS_BIND
    c.bind("TransactionState", TS_BIND)


HEADERS = List(Tup(STR, Opt(BYTES)))


@contract(MOD + ":MessageAccumulator.add_message", ["C01", "C02", "C19"])
def _(c):
    c.self_("MessageAccumulator")
    c.param("tp", TP)
    c.param("key", Opt(BYTES))
    c.param("value", Opt(BYTES))
    c.param("timeout", REAL)
    c.param("timestamp_ms", Opt(INT), default="None")
    c.param("headers", HEADERS)
    c.returns(MA.MSGFUT)
    c.no_class_inv = True
    c.none_raises = True
    c.local("pending_batches", Opt(List(BATCH)))
    c.owns("self._txn_manager", "self._batch_size", "self._compression_type")
    c.callee_view("MessageBatch.append", ["fresh-pending-future"])
    c.callee_view("MessageAccumulator._append_batch", ["queued-at-the-end-of-its-partitions-queue"])
    c.call("copy.copy", returns="a0", note="copy.copy(exc) is an exception of the same class")
    c.call("self.create_builder", returns=Ref("BatchBuilder"), post=["fresh(result)", "not result._closed", "result._relative_offset == 0"],
           note="create_builder: a new, empty, open BatchBuilder")
    c.call("batch.wait_drain", havoc_all=True, raises=["CancelledError", "KafkaError"],
           note="MessageBatch.wait_drain(timeout): suspends until the sender has taken the batch (or it failed / timed out)")
    c.call("time.monotonic", returns=REAL, note="clock")
    c.modifies("self._batches", "MessageBatch._msg_futures", "BatchBuilder._relative_offset", "BatchBuilder._closed",
               "TransactionManager._pending_txn_partitions", "Future.state", "Future.nres")
    c.raises("closed-failed-refused-timed-out-or-cancelled", "BaseException")
    c.loop(0, header="while True", invariants=[])
    c.hook("before", "batch.append", [
        ("assert", "nothing-is-accepted-once-the-accumulator-is-closed-or-failed", "not self._closed and self._exception is None"),
        ("assert", "the-record-joins-the-last-batch-of-its-partitions-queue",
         "tp in self._batches and len(self._batches[tp]) >= 1 and batch == self._batches[tp][len(self._batches[tp]) - 1]"),
        ("assert", "the-record-is-passed-on-as-given", "a0 == key and a1 == value and a2 == timestamp_ms and kw_headers == headers"),
    ])
