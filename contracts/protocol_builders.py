"""C11 — per-version request builders: a parameter that changes the request's meaning and that the
negotiated version cannot express is rejected with IncompatibleBrokerVersion, never silently dropped.

`request_struct_class(...)` is the chosen struct class being instantiated positionally; that the
positions are the schema's fields of that version is the finite enumeration in bounded/C11.py."""
from pyvc.contract import contract, classmodel, specfn
from pyvc.ty import V, INT, BOOL, STR, NONE, EXC, BYTES, Opt, Tup, List, Set, Dict, Ref, Opaque
from . import protocol_api  # noqa: F401  (ReqClass / ReqStruct models)

STRUCT_CALL = dict(returns=Ref("ReqStruct"), post=["result.g_class == self_", "fresh(result)"],
                   note="instantiating the chosen request-struct class yields an instance of it")
TOPICS = Opaque("Topics")

# ------------------------------------------------------------------------------------- Produce
classmodel("ProduceRequest", {"_transactional_id": Opt(STR), "_required_acks": INT, "_timeout": INT, "_topics": TOPICS})


@contract("aiokafka.protocol.produce:ProduceRequest.build", "C11")
def _(c):
    c.self_("ProduceRequest")
    c.param("request_struct_class", Ref("ReqClass"))
    c.returns(Ref("ReqStruct"))
    c.call("request_struct_class", **STRUCT_CALL)
    c.raises("transactional-id-needs-v3", "IncompatibleBrokerVersion",
             when="request_struct_class.API_VERSION < 3 and truthy_str(self._transactional_id)", exact=True)
    c.hook("before", "request_struct_class/3", [
        ("assert", "three-field-form-only-below-v3", "request_struct_class.API_VERSION < 3"),
        ("assert", "fields-in-schema-order", "a0 == self._required_acks and a1 == self._timeout and a2 == self._topics"),
    ])
    c.hook("before", "request_struct_class/4", [
        ("assert", "four-field-form-from-v3", "request_struct_class.API_VERSION >= 3"),
        ("assert", "transactional-id-carried", "a0 == self._transactional_id"),
        ("assert", "fields-in-schema-order", "a1 == self._required_acks and a2 == self._timeout and a3 == self._topics"),
    ])
    c.ensures("instance-of-the-negotiated-class", "result.g_class == request_struct_class")


# --------------------------------------------------------------------------------- ListOffsets
PARTS = List(Tup(INT, INT))
OTOPICS = List(Tup(STR, PARTS))
classmodel("OffsetRequest", {"_replica_id": INT, "_isolation_level": INT, "_topics": OTOPICS})


@contract("aiokafka.protocol.offset:OffsetRequest.build", ["C11", "C13"])
def _(c):
    c.self_("OffsetRequest")
    c.param("request_struct_class", Ref("ReqClass"))
    c.returns(Ref("ReqStruct"))
    c.local("topics", List(Tup(STR, List(Tup(INT, INT, INT)))))
    c.local("legacy_partitions", List(Tup(INT, INT, INT)))
    c.requires("request_struct_class.API_VERSION >= 0")
    c.call("request_struct_class", **STRUCT_CALL)
    c.raises("isolation-level-or-timestamp-search-not-expressible", "IncompatibleBrokerVersion",
             when="(request_struct_class.API_VERSION < 2 and self._isolation_level != 0) or (request_struct_class.API_VERSION == 0"
                  " and exists(lambda j, k: 0 <= j < len(self._topics) and 0 <= k < len(self._topics[j][1])"
                  " and self._topics[j][1][k][1] >= 0))")
    c.loop(0, header="for topic, partitions in self._topics", invariants=[
        ("earlier-topics-have-no-timestamp-search", "forall(lambda j, k: implies(0 <= j < $i and 0 <= k < len(self._topics[j][1]),"
         " self._topics[j][1][k][1] < 0))"),
        ("one-legacy-entry-per-topic", "len(topics) == $i"),
    ])
    c.loop(1, header="for part, ts in partitions", invariants=[
        ("earlier-partitions-have-no-timestamp-search", "forall(lambda k: implies(0 <= k < $i, partitions[k][1] < 0))"),
        ("legacy-triples", "len(legacy_partitions) == $i and forall(lambda k: implies(0 <= k < $i,"
         " legacy_partitions[k] == (partitions[k][0], partitions[k][1], 1)))"),
    ])
    c.hook("before", "request_struct_class/3", [
        ("assert", "isolation-level-carried-from-v2", "request_struct_class.API_VERSION >= 2 and a1 == self._isolation_level"
         " and a0 == self._replica_id and a2 == self._topics"),
    ])
    c.hook("before", "request_struct_class/2", [
        ("assert", "two-field-form-only-below-v2", "request_struct_class.API_VERSION < 2 and self._isolation_level == 0"
         " and a0 == self._replica_id"),
    ])
    c.ensures("isolation-level-never-dropped", "implies(self._isolation_level != 0, request_struct_class.API_VERSION >= 2)")
    c.ensures("timestamp-search-never-dropped", "implies(request_struct_class.API_VERSION == 0,"
              " forall(lambda j, k: implies(0 <= j < len(self._topics) and 0 <= k < len(self._topics[j][1]),"
              " self._topics[j][1][k][1] < 0)))")


# ----------------------------------------------------------------------------- FindCoordinator
classmodel("FindCoordinatorRequest", {"_coordinator_key": STR, "_coordinator_type": INT})


@contract("aiokafka.protocol.coordination:FindCoordinatorRequest.build", "C11")
def _(c):
    c.self_("FindCoordinatorRequest")
    c.param("request_struct_class", Ref("ReqClass"))
    c.returns(Ref("ReqStruct"))
    c.call("request_struct_class", **STRUCT_CALL)
    c.raises("coordinator-type-needs-v1", "IncompatibleBrokerVersion",
             when="request_struct_class.API_VERSION < 1 and self._coordinator_type != 0", exact=True)
    c.hook("before", "request_struct_class/1", [
        ("assert", "key-only-form-below-v1", "request_struct_class.API_VERSION < 1 and a0 == self._coordinator_key"),
    ])
    c.hook("before", "request_struct_class/2", [
        ("assert", "type-carried-from-v1", "request_struct_class.API_VERSION >= 1 and a0 == self._coordinator_key"
         " and a1 == self._coordinator_type"),
    ])


# ------------------------------------------------------------------------------ DescribeGroups
classmodel("DescribeGroupsRequest", {"_groups": Opaque("Groups"), "_include_authorized_operations": BOOL})


@contract("aiokafka.protocol.admin:DescribeGroupsRequest.build", "C11")
def _(c):
    """'authorized operations' of the statement's list"""
    c.self_("DescribeGroupsRequest")
    c.param("request_struct_class", Ref("ReqClass"))
    c.returns(Ref("ReqStruct"))
    c.call("request_struct_class", **STRUCT_CALL)
    c.raises("authorized-operations-need-v3", "IncompatibleBrokerVersion",
             when="request_struct_class.API_VERSION < 3 and self._include_authorized_operations", exact=True)
    c.hook("before", "request_struct_class/1", [
        ("assert", "groups-only-form-below-v3", "request_struct_class.API_VERSION < 3 and a0 == self._groups"),
    ])
    c.hook("before", "request_struct_class/2", [
        ("assert", "flag-carried-from-v3", "request_struct_class.API_VERSION >= 3 and a0 == self._groups"
         " and a1 == self._include_authorized_operations"),
    ])
    c.ensures("instance-of-the-negotiated-class", "result.g_class == request_struct_class")


# --------------------------------------------------------------------------------------- Fetch
classmodel("FetchRequest", {"_max_wait_ms": INT, "_min_bytes": INT, "_max_bytes": INT, "_isolation_level": INT,
                            "_topics": Opaque("FetchTopics"), "_rack_id": STR})


@contract("aiokafka.protocol.fetch:FetchRequest.build", "C11")
def _(c):
    """'isolation level' of the statement's list, for Fetch. Versions 0..4 only: from v5 on the builder assembles its
    argument list dynamically (`request_struct_class(*args)`), outside the verified subset - every one of those versions
    carries the isolation level (the rejection below is the only place it can be lost); their layout is the round-trip
    stand-in's business."""
    c.self_("FetchRequest")
    c.param("request_struct_class", Ref("ReqClass"))
    c.returns(Ref("ReqStruct"))
    c.requires("0 <= request_struct_class.API_VERSION <= 4", "a-version-below-5")
    c.call("request_struct_class", **STRUCT_CALL)
    c.raises("isolation-level-needs-v4", "IncompatibleBrokerVersion",
             when="request_struct_class.API_VERSION < 4 and self._isolation_level != 0", exact=True)
    c.hook("before", "request_struct_class/6", [
        ("assert", "v4-carries-the-isolation-level", "request_struct_class.API_VERSION == 4 and a0 == -1 and a1 == self._max_wait_ms"
         " and a2 == self._min_bytes and a3 == self._max_bytes and a4 == self._isolation_level and a5 == self._topics"),
    ])
    c.hook("before", "request_struct_class/5", [
        ("assert", "v3-form", "request_struct_class.API_VERSION == 3 and a0 == -1 and a1 == self._max_wait_ms"
         " and a2 == self._min_bytes and a3 == self._max_bytes and a4 == self._topics"),
    ])
    c.hook("before", "request_struct_class/4", [
        ("assert", "v0-v2-form", "request_struct_class.API_VERSION < 3 and a0 == -1 and a1 == self._max_wait_ms"
         " and a2 == self._min_bytes and a3 == self._topics"),
    ])
    c.ensures("instance-of-the-negotiated-class", "result.g_class == request_struct_class")
