"""C03 — bounded stand-in beside the proofs (never counted as proved). The proofs cover the fetcher and the subscription state;
AIOKafkaConsumer.getone()/getmany() are thin wrappers with a variable argument list and a context manager, outside the
verified subset. What they have to do for C03 is small: hand the caller's partition filter to the fetcher as it is (an empty
filter means "every assigned partition" there) with the caller's limits. Every filter over three assigned partitions x every
subset of them paused, on a real consumer object whose fetcher records what it is asked."""
import argparse
import asyncio
import itertools
import json
import logging

logging.disable(logging.CRITICAL)


def emit(d):
    print("BOUNDED " + json.dumps(d, default=str))


def sweep():
    from unittest import mock
    from aiokafka.consumer.consumer import AIOKafkaConsumer
    from aiokafka.structs import TopicPartition
    tps = [TopicPartition("t", i) for i in range(3)]
    fails, n = [], 0

    async def main():
        nonlocal n
        for k in range(0, 4):
            for flt in itertools.combinations(tps, k):
                for npaused in range(0, 4):
                    for paused in itertools.combinations(tps, npaused):
                        consumer = AIOKafkaConsumer(bootstrap_servers="h:1", max_poll_records=7)
                        consumer._subscription.assign_from_user(set(tps))
                        for tp in tps:
                            consumer._subscription.subscription.assignment.state_value(tp).reset_to(0)
                        asked = []

                        class Fetcher:
                            async def next_record(self, partitions):
                                asked.append(("getone", tuple(partitions)))
                                return "record"

                            async def fetched_records(self, partitions, timeout=0, max_records=None):
                                asked.append(("getmany", tuple(partitions), timeout, max_records))
                                return {}
                        consumer._fetcher = Fetcher()
                        consumer._coordinator = mock.MagicMock()
                        consumer._closed = False
                        consumer.pause(*paused)
                        await consumer.getone(*flt)
                        await consumer.getmany(*flt, timeout_ms=250, max_records=3)
                        await consumer.getmany(*flt)
                        n += 3
                        want = [("getone", flt), ("getmany", flt, 0.25, 3), ("getmany", flt, 0, 7)]
                        if asked != want:
                            fails.append({"filter": [tuple(x) for x in flt], "paused": [tuple(x) for x in paused],
                                          "fetcher_was_asked": repr(asked)[:300], "expected": repr(want)[:300]})
                        consumer._closed = True
                        if len(fails) >= 5:
                            return
    asyncio.run(main())
    return n, fails


def main():
    ap = argparse.ArgumentParser()
    ap.add_argument("--tier", default="quick")
    ap.add_argument("--seed", type=int, default=0)
    ap.parse_args()
    n, fails = sweep()
    emit({"name": "the-callers-partition-filter-and-limits-reach-the-fetcher", "exhaustive": True, "cases": n, "distinct_nontrivial": n,
          "bound": "getone / getmany of a real AIOKafkaConsumer object (fetcher replaced by a recorder) for every filter over 3 assigned "
                   "partitions x every subset of them paused",
          "failures": fails[:10], "replay": {"script": REPLAY}})


REPLAY = '''
import sys
sys.path.insert(0, "/verif")
from bounded import C03
n, fails = C03.sweep()
VIOLATED = bool(fails); DETAIL = "%d calls, the fetcher was asked something else than the caller said: %r" % (n, fails[:2])
'''

if __name__ == "__main__":
    main()
