"""C01 / C02 / C07 — aiokafka/producer/message_accumulator.py: how a record gets into the accumulator
(MessageAccumulator._append_batch, add_message).

C01 "in the order each sending task issued them": a record is appended to the LAST batch of its partition's queue, and a new
batch is queued at the END (retried batches come back to the front: reenqueue). C07 "never writes to a partition before the
coordinator acknowledged adding it ... never writes transactional data outside an open transaction": a new batch is created
only after the transaction manager has registered its partition (which refuses, without effect, outside an open
transaction). C02/C19: once the accumulator is closed or failed nothing is accepted any more."""
from pyvc.contract import contract, classmodel, specfn, SPEC_TYPES, CLASSES
from pyvc.ty import V, INT, BOOL, REAL, STR, NONE, EXC, BYTES, Opt, Tup, List, Set, Dict, Ref, Opaque
from pyvc.exec_base import Fut
from .common import TP
from . import message_accumulator as MA, transaction_manager      # noqa: F401

MOD = MA.MOD
BATCH = MA.BATCH
Q = "self._batches[tp]"
OLDQ = "old(self._batches)[tp]"
TXN = "self._txn_manager is not None and self._txn_manager.transactional_id is not None"


@contract(MOD + ":MessageAccumulator._append_batch", ["C01", "C02", "C07"])
def _(c):
    c.self_("MessageAccumulator")
    c.param("builder", Ref("BatchBuilder"))
    c.param("tp", TP)
    c.returns(BATCH)
    c.no_class_inv = True
    c.call("MessageBatch", returns=BATCH, nargs=4,
           post=["fresh(result)", "result._tp == a0", "result._builder == a1", "not result.future.done()", "len(result._msg_futures) == 0",
                 "result._retry_count == 0"],
           note="MessageBatch.__init__: stores tp and builder, creates its pending futures, no records yet")
    c.modifies("self._batches", "TransactionManager._pending_txn_partitions", "Future.state", "Future.nres")
    c.raises("the-transaction-manager-refuses-the-partition", "AssertionError",
             ensures=[("nothing-queued", "self._batches == old(self._batches)")])
    c.hook("before", "MessageBatch", [
        ("assert", "a-transactional-batch-is-created-only-for-a-partition-registered-with-the-open-transaction",
         "implies(" + TXN + ", self._txn_manager.state == TransactionState.IN_TRANSACTION"
         " and (tp in self._txn_manager._txn_partitions or tp in self._txn_manager._pending_txn_partitions))"),
    ])
    c.ensures("queued-at-the-end-of-its-partitions-queue",
              "tp in self._batches and len(" + Q + ") >= 1 and " + Q + "[len(" + Q + ") - 1] == result and result._tp == tp"
              " and result._builder == builder")
    c.ensures("earlier-batches-keep-their-place",
              "implies(tp in old(self._batches), len(" + Q + ") == len(" + OLDQ + ") + 1"
              " and forall(lambda j: implies(0 <= j < len(" + OLDQ + "), " + Q + "[j] == " + OLDQ + "[j])))"
              " and implies(tp not in old(self._batches), len(" + Q + ") == 1)")
    c.ensures("other-queues-untouched", "forall(TP, lambda q: implies(q != tp, (q in self._batches) == (q in old(self._batches))"
              " and implies(q in self._batches, self._batches[q] == old(self._batches)[q])))")
    c.ensures("the-sender-is-woken", "self._waiter_future.done()")
    from .sender_txn import TS_BIND
    c.bind("TransactionState", TS_BIND)


HEADERS = List(Tup(STR, Opt(BYTES)))


@contract(MOD + ":MessageAccumulator.add_message", ["C01", "C02", "C19"])
def _(c):
    c.self_("MessageAccumulator")
    c.param("tp", TP)
    c.param("key", Opt(BYTES))
    c.param("value", Opt(BYTES))
    c.param("timeout", REAL)
    c.param("timestamp_ms", Opt(INT), default="None")
    c.param("headers", HEADERS)
    c.returns(MA.MSGFUT)
    c.no_class_inv = True
    c.none_raises = True
    c.local("pending_batches", Opt(List(BATCH)))
    c.owns("self._txn_manager", "self._batch_size", "self._compression_type")
    c.callee_view("MessageBatch.append", ["fresh-pending-future"])
    c.callee_view("MessageAccumulator._append_batch", ["queued-at-the-end-of-its-partitions-queue"])
    c.call("copy.copy", returns="a0", note="copy.copy(exc) is an exception of the same class")
    c.call("self.create_builder", returns=Ref("BatchBuilder"), post=["fresh(result)", "not result._closed", "result._relative_offset == 0"],
           note="create_builder: a new, empty, open BatchBuilder")
    c.call("batch.wait_drain", havoc_all=True, raises=["CancelledError", "KafkaError"],
           note="MessageBatch.wait_drain(timeout): suspends until the sender has taken the batch (or it failed / timed out)")
    c.call("time.monotonic", returns=REAL, note="clock")
    c.modifies("self._batches", "MessageBatch._msg_futures", "BatchBuilder._relative_offset", "BatchBuilder._closed",
               "TransactionManager._pending_txn_partitions", "Future.state", "Future.nres")
    c.raises("closed-failed-refused-timed-out-or-cancelled", "BaseException")
    c.loop(0, header="while True", invariants=[])
    c.hook("before", "batch.append", [
        ("assert", "nothing-is-accepted-once-the-accumulator-is-closed-or-failed", "not self._closed and self._exception is None"),
        ("assert", "the-record-joins-the-last-batch-of-its-partitions-queue",
         "tp in self._batches and len(self._batches[tp]) >= 1 and batch == self._batches[tp][len(self._batches[tp]) - 1]"),
        ("assert", "the-record-is-passed-on-as-given", "a0 == key and a1 == value and a2 == timestamp_ms and kw_headers == headers"),
    ])


@contract(MOD + ":MessageAccumulator.add_batch", ["C02", "C01"])
def _(c):
    """C02 "each accepted record's future resolves exactly once ... flush() returns only after every accepted record is
    resolved": flush(), drain and reenqueue keep their books by the batch's own delivery future (its done-callback removes
    the batch from the in-flight set; every contract on them assumes nobody outside resolves or cancels it). A user-built
    batch is the one place where a future of the batch is handed to the application: it has to be a shield - a future of
    its own that follows the batch's - so that a cancelled or timed-out caller cannot resolve the batch behind the
    accumulator's back"""
    c.self_("MessageAccumulator")
    c.param("builder", Ref("BatchBuilder"))
    c.param("tp", TP)
    c.param("timeout", REAL)
    c.returns(MA.MSGFUT)
    c.no_class_inv = True
    c.none_raises = True
    c.local("pending", Opt(List(BATCH)))
    c.shared("batch.future")
    c.ghost("$shielded", Opt(MA.MSGFUT), "None")
    c.callee_view("MessageAccumulator._append_batch", ["queued-at-the-end-of-its-partitions-queue"])
    c.call("asyncio.shield", returns=MA.MSGFUT, post=["fresh(result)"], ghost={"$shielded": "a0"},
           note="asyncio.shield(fut): a new outer future that follows fut; cancelling the outer one does not cancel fut")
    c.call("copy.copy", returns="a0", note="copy.copy(exc) is an exception of the same class")
    c.call("pending*.wait_drain", havoc_all=True, raises=["CancelledError", "KafkaError"],
           note="MessageBatch.wait_drain(timeout): suspends until the sender has taken the batch (or it failed / timed out)")
    c.call("time.monotonic", returns=REAL, note="clock")
    c.modifies("self._batches", "TransactionManager._pending_txn_partitions", "Future.state", "Future.nres")
    c.raises("closed-failed-refused-timed-out-or-cancelled", "BaseException")
    c.loop(0, header="while timeout > 0", invariants=[
        ("checked-open-and-unfailed-since-the-last-suspension", "not self._closed and self._exception is None")])
    c.ensures_internal("the-caller-gets-a-shield-of-the-queued-batchs-future-never-the-future-itself",
                       "fresh(result) and tp in self._batches and len(self._batches[tp]) >= 1 and $shielded is not None"
                       " and $shielded == self._batches[tp][len(self._batches[tp]) - 1].future"
                       " and result != self._batches[tp][len(self._batches[tp]) - 1].future")
    c.hook("before", "self._append_batch", [
        ("assert", "nothing-is-accepted-once-the-accumulator-is-closed-or-failed", "not self._closed and self._exception is None"),
        ("assert", "the-batch-is-queued-alone-for-its-partition", "a0 == builder and a1 == tp and not (tp in self._batches and len(self._batches[tp]) > 0)"),
    ])
    c.replay_fn = lambda model, ob=None: {"script": _ADD_BATCH_SCRIPT}


# replay: (1) a send_batch() waiting for a slot while the producer is stopped: it must be refused, not queued into the closed
# accumulator; (2) a user-built batch whose send_batch() future is cancelled by the caller while it is queued
_ADD_BATCH_SCRIPT = '''
import asyncio, logging
logging.disable(logging.CRITICAL)
from aiokafka.producer.message_accumulator import MessageAccumulator
from aiokafka.structs import TopicPartition

class Cluster:
    def leader_for_partition(self, tp):
        return 1

async def close_race():
    acc = MessageAccumulator(Cluster(), 1 << 16, 0, 1000)
    tp = TopicPartition("t", 0)
    def mk(v):
        b = acc.create_builder(); b.append(timestamp=None, key=None, value=v); return b
    await acc.add_batch(mk(b"one"), tp, 5)
    t2 = asyncio.ensure_future(acc.add_batch(mk(b"two"), tp, 5))       # waits for a slot
    await asyncio.sleep(0.01)
    closer = asyncio.ensure_future(acc.close())                          # producer.stop(): closed, then flush()
    await asyncio.sleep(0.01)
    nodes, _ = acc.drain_by_nodes(ignore_nodes=set())
    nodes[1][tp].done_noack()
    await asyncio.sleep(0.05)
    out = []
    if t2.done() and t2.exception() is None:
        await asyncio.sleep(0.05)
        out.append("a send_batch() that was waiting for a slot was accepted into the accumulator after close() (close returned: %s); "
                   "its future is %s" % (closer.done(), "resolved" if t2.result().done() else "pending for ever"))
    for f in (t2, closer):
        if not f.done(): f.cancel()
    for b in [b for q in acc._batches.values() for b in q]:
        b.done_noack()
    return out

async def main():
    bad = await close_race()
    acc = MessageAccumulator(Cluster(), 1 << 16, 0, 1000)
    tp = TopicPartition("t", 0)
    builder = acc.create_builder()
    builder.append(timestamp=None, key=None, value=b"v")
    fut = await acc.add_batch(builder, tp, 1)
    batch = acc._batches[tp][0]
    fut.cancel()                                   # the caller gives up (asyncio.wait_for timeout)
    await asyncio.sleep(0)
    if batch.future.done():
        bad.append("cancelling the future send_batch() returned resolved the batch's own delivery future: flush() no longer "
                   "waits for its records and reenqueue() of the batch raises KeyError")
    nodes, _ = acc.drain_by_nodes(ignore_nodes=set())
    try:
        acc.reenqueue(nodes[1][tp])                # a retriable fault on the request in flight
    except Exception as e:
        bad.append("reenqueue() after the caller's cancellation raised %r" % (e,))
    for b in list(acc._batches.get(tp, [])):
        b.done_noack()
    return bad
bad = asyncio.run(main())
VIOLATED = bool(bad); DETAIL = "; ".join(bad)
'''
