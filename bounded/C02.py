"""C02 — bounded stand-in beside the proofs (never counted as proved). The proofs of MessageBatch.append/done are tied to
the representation of the batch's bookkeeping (`_msg_futures`); a change of that representation leaves them undecided
rather than refuted. Here the statement is checked through the public behaviour only: records are added to a real
MessageBatch (optionally after the builder was pre-filled through the create_batch() interface), the batch is resolved
with done()/done_noack()/failure(), and every send() future must name the offset and timestamp at which that very
record sits in the batch that was built."""
import argparse
import asyncio
import itertools
import json
import logging

logging.disable(logging.CRITICAL)

from bounded import codec_common as cc      # noqa: E402

cc.use_fresh_extensions()                   # the compiled record builder is rebuilt from the .pyx sources of the tree under test


def emit(d):
    print("BOUNDED " + json.dumps(d, default=str))


async def one(prefill, nsend, broker_ts, log_start, magic_compress):
    from aiokafka.producer.message_accumulator import BatchBuilder, MessageBatch
    from aiokafka.record.memory_records import MemoryRecords
    from aiokafka.structs import TopicPartition
    tp = TopicPartition("t", 3)
    builder = BatchBuilder(1 << 20, magic_compress, is_transactional=False)
    for i in range(prefill):                                   # the create_batch()/send_batch() interface: no futures
        builder.append(timestamp=5000 + i, key=b"pre%d" % i, value=b"p")
    batch = MessageBatch(tp, builder, 30, 0)
    futs = []
    # "that very record (same key, value and headers)": an empty value and a tombstone (None) are different records
    vals = [b"v0", b"", None, b"v3"]
    for i in range(nsend):
        f = batch.append(b"k%d" % i, vals[i % 4], 7000 + 10 * i)
        if f is None:
            return "append refused record %d" % i
        futs.append(f)
    batch.drain_ready()
    data = bytes(batch.get_data_buffer())
    base = 1000
    batch.done(base, broker_ts, log_start)
    # where each record really sits in the bytes that were built
    recs = []
    m = MemoryRecords(data)
    while True:
        b = m.next_batch()
        if b is None:
            break
        recs.extend((r.offset, r.key, r.value, r.timestamp) for r in b)
    problems = []
    for i, f in enumerate(futs):
        if not f.done():
            problems.append("send #%d never resolved" % i)
            continue
        md = f.result()
        where = [(off, ts) for off, k, v, ts in recs if k == b"k%d" % i and v == vals[i % 4]]
        if len(where) != 1:
            problems.append("record #%d (key k%d, value %r) occurs %d times in the built batch; records with that key: %r"
                            % (i, i, vals[i % 4], len(where), [(off, v) for off, k, v, ts in recs if k == b"k%d" % i]))
            continue
        rel, ts = where[0]
        want_ts = ts if broker_ts == -1 else broker_ts
        if (md.topic, md.partition) != (tp.topic, tp.partition) or md.offset != base + rel or md.timestamp != want_ts \
                or md.log_start_offset != log_start:
            problems.append("send(k%d) resolved with offset %s timestamp %s log_start %s; that record sits at offset %d "
                            "(timestamp %s)" % (i, md.offset, md.timestamp, md.log_start_offset, base + rel, want_ts))
    return problems[0] if problems else None


def sweep(tier):
    async def main():
        fails, n = [], 0
        pre = (0, 1, 3) if tier == "quick" else (0, 1, 2, 3, 7)
        for prefill, nsend, broker_ts, log_start, comp in itertools.product(pre, (1, 2, 4), (-1, 123456), (None, 17), (0, 1)):
            n += 1
            try:
                r = await one(prefill, nsend, broker_ts, log_start, comp)
            except Exception as e:
                r = "raised %s: %s" % (type(e).__name__, e)
            if r:
                fails.append({"prefilled": prefill, "sends": nsend, "broker_timestamp": broker_ts, "log_start_offset": log_start,
                              "compression": comp, "problem": r})
                if len(fails) >= 10:
                    break
        return n, fails
    return asyncio.run(main())


def main():
    ap = argparse.ArgumentParser()
    ap.add_argument("--tier", default="quick")
    ap.add_argument("--seed", type=int, default=0)
    a = ap.parse_args()
    n, fails = sweep(a.tier)
    emit({"name": "send-results-name-the-records-coordinates", "exhaustive": True, "cases": n, "distinct_nontrivial": n,
          "bound": "real MessageBatch over a v2 builder pre-filled with 0/1/3 records through the batch interface, then 1/2/4 send()s; "
                   "broker timestamp -1 or given; log_start_offset absent or given; plain and gzip; every future checked against the "
                   "position of its own record in the bytes built",
          "failures": fails, "replay": {"script": REPLAY}})
    from bounded import C01 as _C01
    n, fails = _C01.classification()
    emit({"name": "produce-error-classification", "exhaustive": True, "cases": n, "distinct_nontrivial": n,
          "bound": "the error codes a Produce response can carry: retriable flag of the class errors.for_code() maps each to, "
                   "against the Java client's classification (shared with C01)",
          "failures": fails, "replay": {"script": _C01.REPLAY}})
    n, fails = produce_pairing()
    emit({"name": "produce-reply-decoded-with-the-requests-own-version", "exhaustive": True, "cases": n, "distinct_nontrivial": n,
          "bound": "every ProduceRequest struct version: RESPONSE_TYPE has the request's API key and the schema of the "
                   "response class of the same version (the fields a send() result is read from: offset, timestamp)",
          "failures": fails, "replay": {"script": REPLAY_PAIRING}})


def produce_pairing():
    """'true coordinates': the offset and timestamp of a result are read from the ProduceResponse, which is decoded with the
    class the request struct names - it has to be the response of the request's own version"""
    import contextlib, io
    from bounded import C11 as B
    reqs, structs, resps = B.all_structs()
    structs = [s for s in structs if s.__module__.endswith(".produce")]
    buf = io.StringIO()
    with contextlib.redirect_stdout(buf):
        B.enum_pairing(structs, resps)
    d = json.loads(buf.getvalue().split("BOUNDED ", 1)[1])
    return d["cases"], d["failures"]


REPLAY_PAIRING = '''
import sys
sys.path.insert(0, "/verif")
from bounded import C02
n, fails = C02.produce_pairing()
VIOLATED = bool(fails); DETAIL = "%d of %d ProduceRequest versions have their reply decoded with another version's schema: %r" % (len(fails), n, fails[:2])
'''


REPLAY = '''
import sys
sys.path.insert(0, "/verif")
from bounded import C02
n, fails = C02.sweep("quick")
VIOLATED = bool(fails); DETAIL = "%d of %d batches resolve a send() with the wrong coordinates; first: %r" % (len(fails), n, fails[:1])
'''

if __name__ == "__main__":
    main()
