"""C17 — bounded stand-in beside the proof (never counted as proved). The proof covers murmur2 and __call__ as
functions of their arguments; what it cannot exclude when the code leaves the supported subset (the check then ends
undecided) is hidden state across calls. Here one DefaultPartitioner instance answers *sequences* of calls - the same
key under changing partition lists, interleaved keys - and every answer is compared with the Java client's formula."""
import argparse
import itertools
import json
import random

from specs.murmur2_py import java_partition


def emit(d):
    print("BOUNDED " + json.dumps(d, default=str))


def sequences(tier, seed):
    from aiokafka.partitioner import DefaultPartitioner
    rnd = random.Random(seed)
    p = DefaultPartitioner()
    fails, n = [], 0
    keys = [bytes(k) for r in range(0, 3) for k in itertools.product((0, 1, 0x7f, 0x80, 0xff), repeat=r)]
    keys += [bytes(rnd.randrange(256) for _ in range(rnd.choice([3, 4, 5, 7, 8, 9, 31, 64, 257]))) for _ in range(200 if tier == "quick" else 5000)]
    layouts = [list(range(c)) for c in (1, 2, 3, 5, 6, 7, 12, 100)] + [[7, 3, 11], [0, 2, 4, 6, 8]]
    for key in keys:
        for parts in rnd.sample(layouts, len(layouts)):                 # the same key under every layout, in a random order
            avail = [x for x in parts if rnd.random() < 0.5]
            n += 1
            got = p(key, parts, avail)
            want = parts[java_partition(key, len(parts))]
            if got != want:
                fails.append({"key": key.hex(), "all_partitions": parts, "available": avail, "got": got, "want": want,
                              "call_number": n})
                if len(fails) >= 10:
                    return n, fails
    return n, fails


def producer_partition(tier, seed):
    """'bit for bit the value the Java client computes': the Java client's partition is hash % n itself; aiokafka indexes
    the partition list the producer hands to the partitioner, which must therefore be [0, 1, ..., n-1] however the
    broker ordered the partitions in its metadata response. The real AIOKafkaProducer._partition over a real
    ClusterMetadata filled from responses that list the partitions in shuffled order, some without a leader."""
    from aiokafka.cluster import ClusterMetadata
    from aiokafka.partitioner import DefaultPartitioner
    from aiokafka.producer.producer import AIOKafkaProducer
    from aiokafka.protocol.metadata import MetadataResponse_v1
    rnd = random.Random(seed)
    fails, cases = [], 0
    keys = [bytes(k) for r in range(0, 3) for k in itertools.product((0, 0x7f, 0x80, 0xff), repeat=r)]
    keys += [bytes(rnd.randrange(256) for _ in range(rnd.choice([3, 5, 8, 33]))) for _ in range(40 if tier == "quick" else 400)]
    for n in (1, 2, 3, 5, 6, 7, 12, 100, 257, 1000):
        for trial in range(2 if tier == "quick" else 6):
            ids = list(range(n))
            rnd.shuffle(ids)
            # broker ids start at 0 in most clusters: leaders are drawn from the nodes 0, 1, 2 (trial 0: every leader is node 0)
            leaders = {p: (-1 if rnd.random() < 0.2 else (0 if trial == 0 else rnd.choice([0, 1, 2]))) for p in ids}
            # a partition the broker reports with a partition-level error (with or without a leader) still counts: the
            # number of partitions of the topic is what the Java client hashes modulo
            # 5 LEADER_NOT_AVAILABLE, 9 REPLICA_NOT_AVAILABLE, 72 LISTENER_NOT_FOUND, -1 UNKNOWN, 3 UNKNOWN_TOPIC_OR_PARTITION
            perr = {p: (rnd.choice([5, 9, 72, -1, 3]) if (leaders[p] == -1 and rnd.random() < 0.7) or rnd.random() < 0.05 else 0)
                    for p in ids}
            parts = [(perr[p], p, leaders[p], [0, 1, 2], [0, 1, 2]) for p in ids]
            cluster = ClusterMetadata()
            cluster.update_metadata(MetadataResponse_v1([(0, "h0", 9092, None), (1, "h1", 9092, None), (2, "h2", 9092, None)], 1,
                                                        [(0, "t", False, parts)]))

            class P:
                pass
            prod = P()
            prod._metadata = cluster
            prod._partitioner = DefaultPartitioner()
            for key in keys:
                cases += 1
                got = AIOKafkaProducer._partition(prod, "t", None, key, b"v", key, b"v")
                want = java_partition(key, n)
                if got != want:
                    fails.append({"key": key.hex(), "partitions": n, "listed_in_metadata_as": ids[:12], "got": got, "java": want})
                    if len(fails) >= 10:
                        return cases, fails
            # "An unkeyed record goes to an available partition whenever at least one is available" (available: has a leader)
            led = {p for p in ids if leaders[p] != -1}
            for _ in range(20):
                cases += 1
                got = AIOKafkaProducer._partition(prod, "t", None, None, b"v", None, b"v")
                if (led and got not in led) or got not in leaders:
                    fails.append({"key": None, "partitions": n, "leaders": dict(list(leaders.items())[:12]), "got": got,
                                  "partitions_with_a_leader": sorted(led)[:12]})
                    if len(fails) >= 10:
                        return cases, fails
    return cases, fails


def wire_metadata(version, brokers, topic, parts):
    """MetadataResponse v0..v5 written byte by byte from the Kafka protocol's message definition (independent of the
    schema classes in aiokafka/protocol/metadata.py): node ids and leaders are signed INT32, -1 meaning 'none'"""
    import struct
    i16 = lambda v: struct.pack(">h", v)
    i32 = lambda v: struct.pack(">i", v)
    def st(x):
        return i16(-1) if x is None else i16(len(x.encode())) + x.encode()
    arr = lambda items: i32(len(items)) + b"".join(items)
    out = b""
    if version >= 3:
        out += i32(0)                                                   # throttle_time_ms
    out += arr([i32(n) + st(h) + i32(p) + (st(None) if version >= 1 else b"") for n, h, p in brokers])
    if version >= 2:
        out += st("cluster")                                            # cluster_id
    if version >= 1:
        out += i32(brokers[0][0])                                       # controller_id
    plist = [i16(err) + i32(pid) + i32(leader) + arr([i32(r) for r in (0, 1, 2)]) + arr([i32(r) for r in (0, 1)])
             + (arr([]) if version >= 5 else b"") for err, pid, leader in parts]
    out += arr([i16(0) + st(topic) + (b"\x00" if version >= 1 else b"") + arr(plist)])
    return out


def metadata_over_the_wire(tier, seed):
    """'An unkeyed record goes to an available partition whenever at least one is available': availability is read from the
    metadata reply the broker sent. Every reply version the client asks for (v0..v5), written by wire_metadata(), decoded by
    the repository's schema class, applied to a real ClusterMetadata: the partitions without a leader (-1 on the wire) are
    the unavailable ones, and the real AIOKafkaProducer._partition sends unkeyed records to the others."""
    import io
    from aiokafka.cluster import ClusterMetadata
    from aiokafka.partitioner import DefaultPartitioner
    from aiokafka.producer.producer import AIOKafkaProducer
    from aiokafka.protocol import metadata as M
    rnd = random.Random(seed)
    fails, cases = [], 0
    for version in range(0, 6):
        cls = getattr(M, "MetadataResponse_v%d" % version)
        for n in (1, 2, 5, 12):
            for trial in range(3):
                leaders = {p: (-1 if (rnd.random() < 0.4 or (trial == 0 and p == 0)) else rnd.choice([0, 1, 2])) for p in range(n)}
                parts = [(5 if leaders[p] == -1 else 0, p, leaders[p]) for p in range(n)]
                raw = wire_metadata(version, [(0, "h0", 9092), (1, "h1", 9092), (2, "h2", 9092)], "t", parts)
                cases += 1
                what = {"version": version, "leaders": leaders}
                try:
                    buf = io.BytesIO(raw)
                    resp = cls.decode(buf)
                    left = len(buf.read())
                except Exception as e:
                    fails.append(dict(what, problem="reply not decoded: %s" % type(e).__name__))
                    continue
                if left:
                    fails.append(dict(what, problem="%d bytes of the reply left undecoded" % left))
                    continue
                cluster = ClusterMetadata()
                cluster.update_metadata(resp)
                led = {p for p in leaders if leaders[p] != -1}
                avail = set(cluster.available_partitions_for_topic("t") or ())
                if avail != led or set(cluster.partitions_for_topic("t") or ()) != set(leaders):
                    fails.append(dict(what, problem="available partitions %r, partitions with a leader %r" % (sorted(avail), sorted(led))))
                    continue

                class P:
                    pass
                prod = P()
                prod._metadata = cluster
                prod._partitioner = DefaultPartitioner()
                for _ in range(10):
                    got = AIOKafkaProducer._partition(prod, "t", None, None, b"v", None, b"v")
                    if (led and got not in led) or got not in leaders:
                        fails.append(dict(what, problem="unkeyed record sent to partition %r" % got))
                        break
    return cases, fails


def main():
    ap = argparse.ArgumentParser()
    ap.add_argument("--tier", default="quick")
    ap.add_argument("--seed", type=int, default=0)
    a = ap.parse_args()
    n, fails = sequences(a.tier, a.seed)
    emit({"name": "partitioner-call-sequences", "exhaustive": False, "cases": n, "distinct_nontrivial": n,
          "bound": "one partitioner instance, every key of length 0..2 over {00,01,7f,80,ff} plus %d seeded random keys (3..257 bytes), "
                   "each under 10 partition layouts (1..100 partitions, non-contiguous ids) in random order with random availability; seed %d"
                   % (200 if a.tier == "quick" else 5000, a.seed),
          "failures": fails, "replay": {"script": REPLAY % a.seed}})


    n, fails = producer_partition(a.tier, a.seed)
    emit({"name": "producer-partition-for-shuffled-metadata", "exhaustive": False, "cases": n, "distinct_nontrivial": n,
          "bound": "the real AIOKafkaProducer._partition over a real ClusterMetadata: 1..1000 partitions listed by the broker in "
                   "shuffled order, a fifth of them without a leader, the others led by nodes 0..2 (every leader node 0 in one trial); "
                   "keys of length 0..2 over {00,7f,80,ff} plus seeded random keys compared with the Java client's hash %% n, and "
                   "20 unkeyed sends per layout which must land on a partition that has a leader; seed %d" % a.seed,
          "failures": fails, "replay": {"script": REPLAY_PRODUCER % a.seed}})


    n, fails = metadata_over_the_wire(a.tier, a.seed)
    emit({"name": "availability-from-metadata-replies-v0-v5", "exhaustive": False, "cases": n, "distinct_nontrivial": n,
          "bound": "MetadataResponse v0..v5 written from the protocol definition by an independent encoder, 1..12 partitions, about "
                   "40%% without a leader (-1), decoded by the schema classes into a real ClusterMetadata; 10 unkeyed sends each; seed %d" % a.seed,
          "failures": fails[:10], "replay": {"script": REPLAY_WIRE % a.seed}})


REPLAY_WIRE = '''
import sys
sys.path.insert(0, "/verif")
from bounded import C17
n, fails = C17.metadata_over_the_wire("quick", %d)
VIOLATED = bool(fails); DETAIL = "%%d of %%d metadata replies left the producer with wrong availability; first: %%r" %% (len(fails), n, fails[:1])
'''


REPLAY_PRODUCER = '''
import sys
sys.path.insert(0, "/verif")
from bounded import C17
n, fails = C17.producer_partition("quick", %d)
VIOLATED = bool(fails); DETAIL = "%%d of %%d sends went to the wrong partition (keyed: hash mod n of the Java client; unkeyed: a partition with a leader); first: %%r" %% (len(fails), n, fails[:1])
'''


REPLAY = '''
import sys
sys.path.insert(0, "/verif")
from bounded import C17
n, fails = C17.sequences("quick", %d)
VIOLATED = bool(fails); DETAIL = "%%d of %%d calls differ from the Java formula; first: %%r" %% (len(fails), n, fails[:1])
'''

if __name__ == "__main__":
    main()
