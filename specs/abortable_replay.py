"""Replay for C07 "the producer never writes to a partition before the coordinator acknowledged adding it to the
transaction", around an abortable error: a real AIOKafkaProducer (transactional) over a stubbed client that logs every request.
The fake coordinator behaves like a broker: an AddPartitionsToTxn request naming an unauthorized topic adds NOTHING
(TOPIC_AUTHORIZATION_FAILED for that topic, OPERATION_NOT_ATTEMPTED for the others). Runs under /venv/bin/python.

scenario(first_topics) -> list of problem strings"""
import asyncio
from types import SimpleNamespace

TOPIC_AUTHORIZATION_FAILED = 29
OPERATION_NOT_ATTEMPTED = 55
ALLOWED, DENIED = "allowed", "denied"


def stub_client(producer, log, added):
    from aiokafka.protocol.produce import ProduceRequest
    from aiokafka.protocol.transaction import (AddOffsetsToTxnRequest, AddPartitionsToTxnRequest, EndTxnRequest,
                                               InitProducerIdRequest, TxnOffsetCommitRequest)
    client = producer.client
    cluster = client.cluster
    loop = asyncio.get_running_loop()

    async def noop(*args, **kw):
        return None

    async def wait_on_metadata(topic):
        return {0, 1}

    def force_metadata_update():
        fut = loop.create_future()
        fut.set_result(True)
        return fut

    async def coordinator_lookup(coordinator_type, key):
        return 0

    async def ready(node_id, group=None):
        return True

    async def send(node_id, request, group=None):
        await asyncio.sleep(0)
        if isinstance(request, InitProducerIdRequest):
            return SimpleNamespace(error_code=0, producer_id=7, producer_epoch=0)
        if isinstance(request, AddPartitionsToTxnRequest):
            denied = any(topic == DENIED for topic, _ in request._topics)
            errors = []
            for topic, partitions in request._topics:
                code = 0
                if denied:
                    code = TOPIC_AUTHORIZATION_FAILED if topic == DENIED else OPERATION_NOT_ATTEMPTED
                errors.append((topic, [(p, code) for p in partitions]))
                if not denied:
                    added.update((topic, p) for p in partitions)
            log.append(("AddPartitionsToTxn", sorted((t, sorted(ps)) for t, ps in request._topics), "refused" if denied else "ok"))
            return SimpleNamespace(errors=errors)
        if isinstance(request, ProduceRequest):
            parts = sorted((t, p) for t, ps in request._topics for p, _ in ps)
            log.append(("Produce", parts, [tp for tp in parts if tp not in added]))
            delay = getattr(producer, "_verif_produce_delay", 0)
            if delay:
                await asyncio.sleep(delay)              # a slow partition leader
                log.append(("Produce-answered", parts))
            topics = [(t, [(p, TOPIC_AUTHORIZATION_FAILED if t == DENIED else 0, 100, -1) for p, _ in ps]) for t, ps in request._topics]
            return SimpleNamespace(API_VERSION=3, topics=topics)
        if isinstance(request, AddOffsetsToTxnRequest):
            log.append(("AddOffsetsToTxn", request._group_id))
            return SimpleNamespace(error_code=0)
        if isinstance(request, TxnOffsetCommitRequest):
            log.append(("TxnOffsetCommit", request._group_id))
            return SimpleNamespace(errors=[(t, [(p, 0) for p, *_ in ps]) for t, ps in request._topics])
        if isinstance(request, EndTxnRequest):
            log.append(("EndTxn", "COMMIT" if request._transaction_result else "ABORT"))
            added.clear()
            return SimpleNamespace(error_code=0)
        raise AssertionError("unexpected request %r" % (request,))

    client.bootstrap = noop
    client.close = noop
    client._wait_on_metadata = wait_on_metadata
    client._maybe_wait_metadata = noop
    client.force_metadata_update = force_metadata_update
    client.coordinator_lookup = coordinator_lookup
    client.ready = ready
    client.get_random_node = lambda: 0
    client.send = send
    cluster.leader_for_partition = lambda tp: 0
    cluster.partitions_for_topic = lambda topic: {0, 1}
    cluster.available_partitions_for_topic = lambda topic: {0, 1}


async def scenario(first_sends, abort_at_once=False):
    """first_sends: [(topic, partition)] sent in the first transaction (with linger, so that one AddPartitionsToTxn names
    them all); then abort; then a second transaction with one send to the allowed topic, committed"""
    from aiokafka import AIOKafkaProducer
    from aiokafka.producer.transaction_manager import TransactionState
    log, added, problems = [], set(), []
    producer = AIOKafkaProducer(bootstrap_servers="broker.invalid:9092", transactional_id="txn", linger_ms=50, retry_backoff_ms=10)
    stub_client(producer, log, added)
    await producer.start()
    futs = []
    try:
        tm = producer._txn_manager
        await producer.begin_transaction()
        for topic, p in first_sends:
            futs.append(await producer.send(topic, b"first", partition=p))
        if abort_at_once:
            # the application is already waiting in commit_transaction() when the coordinator refuses the partitions: it is
            # woken by the failed transaction waiter - possibly before the sender loop runs again - and aborts at once
            try:
                await asyncio.wait_for(producer.commit_transaction(), 5)
                return ["commit_transaction() of a refused transaction succeeded"]
            except asyncio.TimeoutError:
                return ["commit_transaction() neither failed nor returned"]
            except Exception:
                pass
        else:
            for _ in range(400):
                if tm.state == TransactionState.ABORTABLE_ERROR:
                    break
                await asyncio.sleep(0.005)
            if tm.state != TransactionState.ABORTABLE_ERROR:
                return ["no abortable error arrived (state %s)" % tm.state]
            await asyncio.sleep(0.1)                 # let the sender run on with the failed transaction still open
        await asyncio.wait_for(producer.abort_transaction(), 5)
        mark = len(log)
        await producer.begin_transaction()
        f = await producer.send(ALLOWED, b"second", partition=0)
        await asyncio.wait_for(producer.commit_transaction(), 5)
        futs.append(f)
        for entry in log:
            if entry[0] == "Produce" and entry[2]:
                problems.append("Produce sent to %r, which the coordinator never acknowledged as part of the open transaction"
                                % (entry[2],))
        if not any(e[0] == "EndTxn" and e[1] == "COMMIT" for e in log[mark:]):
            problems.append("the second transaction did not commit: %r" % (log[mark:],))
    except Exception as e:
        problems.append("scenario raised %r; requests so far: %r" % (e, log))
    finally:
        try:
            await asyncio.wait_for(producer.stop(), 10)
        except Exception as e:
            problems.append("stop() raised %r" % (e,))
        for f in futs:
            if f.done() and not f.cancelled():
                f.exception()
    return ["first transaction sends %r: %s; requests: %r" % (first_sends, p, log) for p in problems]


async def end_while_in_flight(how):
    """'never ends a transaction while one of its batches is unacknowledged': the leader answers Produce late, the application
    ends the transaction (commit or abort) without awaiting its send futures"""
    from aiokafka import AIOKafkaProducer
    log, added, problems = [], set(), []
    producer = AIOKafkaProducer(bootstrap_servers="broker.invalid:9092", transactional_id="txn", linger_ms=0, retry_backoff_ms=10)
    stub_client(producer, log, added)
    producer._verif_produce_delay = 0.2
    await producer.start()
    futs = []
    try:
        await producer.begin_transaction()
        futs.append(await producer.send(ALLOWED, b"v", partition=0))
        for _ in range(200):                         # until the batch is on its way to the leader
            if any(e[0] == "Produce" for e in log):
                break
            await asyncio.sleep(0.002)
        end = producer.commit_transaction if how == "commit" else producer.abort_transaction
        await asyncio.wait_for(end(), 5)
        kinds = [e[0] for e in log]
        if "EndTxn" not in kinds:
            problems.append("no EndTxn was sent")
        elif "Produce-answered" not in kinds[:kinds.index("EndTxn")]:
            problems.append("EndTxn(%s) reached the coordinator while the transaction's Produce request was still unanswered"
                            % [e[1] for e in log if e[0] == "EndTxn"][0])
    except Exception as e:
        problems.append("scenario raised %r" % (e,))
    finally:
        try:
            await asyncio.wait_for(producer.stop(), 10)
        except Exception as e:
            problems.append("stop() raised %r" % (e,))
        for f in futs:
            if f.done() and not f.cancelled():
                f.exception()
    return ["%s_transaction() with a batch in flight: %s; requests: %r" % (how, p, log) for p in problems]


async def offsets_of_groups(groups):
    """'all offset commits of a transaction whose commit_transaction() returned': offsets are sent to the transaction for the
    given consumer groups, in that order; every group's TxnOffsetCommit has to be preceded, in the same transaction, by an
    AddOffsetsToTxn for that group (otherwise the coordinator never writes the marker that makes them visible)"""
    from aiokafka import AIOKafkaProducer
    from aiokafka.structs import TopicPartition, OffsetAndMetadata
    log, added, problems = [], set(), []
    producer = AIOKafkaProducer(bootstrap_servers="broker.invalid:9092", transactional_id="txn", linger_ms=0, retry_backoff_ms=10)
    stub_client(producer, log, added)
    await producer.start()
    try:
        for txn in (1, 2):
            mark = len(log)
            await producer.begin_transaction()
            for g in groups:
                await asyncio.wait_for(producer.send_offsets_to_transaction({TopicPartition("in", 0): OffsetAndMetadata(5, "")}, g), 5)
            await asyncio.wait_for(producer.commit_transaction(), 5)
            registered = set()
            for e in log[mark:]:
                if e[0] == "AddOffsetsToTxn":
                    registered.add(e[1])
                elif e[0] == "TxnOffsetCommit" and e[1] not in registered:
                    problems.append("transaction %d: TxnOffsetCommit for group %r without an AddOffsetsToTxn for it in this transaction" % (txn, e[1]))
            if not any(e[0] == "EndTxn" and e[1] == "COMMIT" for e in log[mark:]):
                problems.append("transaction %d: no EndTxn(COMMIT)" % txn)
    except Exception as e:
        problems.append("scenario raised %r" % (e,))
    finally:
        try:
            await asyncio.wait_for(producer.stop(), 10)
        except Exception as e:
            problems.append("stop() raised %r" % (e,))
    return ["offsets for groups %r: %s; requests: %r" % (groups, p, [e for e in log if e[0] != "Produce"]) for p in sorted(set(problems))]


def groups_sweep():
    bad = []
    for groups in (["g1"], ["g1", "g1"], ["g1", "g2"], ["g1", "g2", "g1"], ["g2", "g1", "g3"]):
        bad += asyncio.run(offsets_of_groups(groups))
    return bad


def in_flight_sweep():
    bad = []
    for how in ("commit", "abort"):
        bad += asyncio.run(end_while_in_flight(how))
    return bad


def sweep():
    bad = []
    for first in ([(DENIED, 0)], [(ALLOWED, 0), (DENIED, 0)], [(DENIED, 0), (ALLOWED, 1)], [(ALLOWED, 0), (ALLOWED, 1), (DENIED, 1)]):
        bad += asyncio.run(scenario(first))
        bad += ["(abort at once) " + b for b in asyncio.run(scenario(first, abort_at_once=True))]
    return bad


if __name__ == "__main__":
    for b in sweep():
        print(b)
